#!/bin/bash
# Run checks against a seeded change in a scratch copy (PYMABLOCK_SRC), without touching /repo:
#   seeded_eval.sh <patch.diff> <tag> <Cxx> [Cxx...]
set -u
PATCH="$(readlink -f "$1")"; TAG="$2"; shift 2
S="/var/tmp/verif-seeded-eval/$TAG"; rm -rf "$S"; mkdir -p "$S"
cp -r "${CLEAN_SRC:-/repo}/pymablock" "$S/pymablock"; rm -rf "$S/pymablock/tests" "$S"/pymablock/__pycache__
( cd "$S" && patch -p1 -s < "$PATCH" ) || { echo "PATCH FAILED"; exit 9; }
for P in "$@"; do
  PYMABLOCK_SRC="$S" VERIF_EVIDENCE_DIR="$S/evidence" VERIF_REPLAY_DIR="$S/replays" VERIF_SHRINK_S=30 /verif/check "$P" --tier "${TIER:-quick}" > "$S/$P.log" 2>&1
  rc=$?
  echo "$TAG $P exit=$rc $(grep -m1 '^violation class' "$S/$P.log" | cut -c1-160)"
  grep -m1 -A1 '^violation class' "$S/$P.log" | tail -1 | cut -c1-400
done
