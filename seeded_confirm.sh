#!/bin/bash
# Confirm a seeded change independently:  seeded_confirm.sh <dir with patch.diff, demo.py> <tag>
# - scratch worktree of /repo HEAD under /tmp, demo on clean tree (must pass), apply patch, demo (must fail),
#   full test suite with the patch, passed-id set compared with the clean-worktree baseline list.
set -u
SRC="$(readlink -f "$1")"; TAG="$2"; WT="/tmp/sv-$TAG"; OUT="/tmp/sv-out/$TAG"; mkdir -p "$OUT"
git -C /repo worktree add --detach "$WT" HEAD -q || exit 9
cp "$SRC/demo.py" "$WT/demo_seeded.py"
( cd "$WT" && timeout 600 /venv/bin/python demo_seeded.py > "$OUT/demo_clean.log" 2>&1; echo "demo_clean_exit=$?" > "$OUT/result" )
( cd "$WT" && git apply "$SRC/patch.diff" ) || { echo "patch_apply=FAILED" >> "$OUT/result"; }
( cd "$WT" && timeout 600 /venv/bin/python demo_seeded.py > "$OUT/demo_patched.log" 2>&1; echo "demo_patched_exit=$?" >> "$OUT/result" )
( cd "$WT" && timeout 3000 /venv/bin/python -m pytest -q -p no:cacheprovider --no-cov -o addopts="" pymablock --junitxml="$OUT/junit.xml" > "$OUT/tests.log" 2>&1 )
python3 - "$OUT" <<'PY'
import sys, json, xml.etree.ElementTree as ET
out=sys.argv[1]
passed=set()
for tc in ET.parse(out+'/junit.xml').iter('testcase'):
    if not any(ch.tag in ('failure','error','skipped') for ch in tc): passed.add(tc.get('classname')+'::'+tc.get('name'))
base=set(json.load(open('/root/.vp/BASELINE.json'))['stable_pass'])
open(out+'/result','a').write(f"tests_passed={len(passed)}\nbaseline_missing={sorted(base-passed)}\n")
PY
rm -f "$WT/demo_seeded.py"
git -C /repo worktree remove --force "$WT"
cat "$OUT/result"
