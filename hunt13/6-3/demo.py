"""Index expressions with fewer entries than finite dimensions are rejected.

Dense array with finite shape (2, 2): a[0] is row 0 (a finite-dimension-only index).
 - n_infinite=0: a[0] is a finite array of two elements  -> library: IndexError
 - n_infinite=1: a[0] is a (2, inf) view                 -> library: IndexError
"""
import sys
import numpy as np
from pymablock.series import BlockSeries

bad = 0
for n in (0, 1):
    s = BlockSeries(eval=lambda *i: "v" + "".join(map(str, i)), shape=(2, 2), n_infinite=n)
    for label, idx in [("s[0]", 0), ("s[[0, 1]]", [0, 1]), ("s[0:1]", slice(0, 1))]:
        want = np.empty((2, 2) + (3,) * n, dtype=object)[idx].shape[: None if n == 0 else -n]
        try:
            r = s[idx]
            got = f"{type(r).__name__} shape {r.shape}"
        except IndexError as e:
            got = f"IndexError{e.args}"
            bad += 1
        print(f"n_infinite={n} {label:10s} dense finite shape {want}  library: {got}")
sys.exit(1 if bad else 0)
