"""A series with `start = 1` cannot be used in a sum, negation or `.adj`: `one` is not handled."""
import sys
import numpy as np
from pymablock.series import BlockSeries, zero, one
from pymablock.algorithm_parsing import series_computation

def val(*i):
    r = np.random.default_rng(hash(tuple(map(int, i))) % 2**32)
    return zero if i[2] == 0 else r.standard_normal((2, 2))
C = BlockSeries(eval=val, shape=(2, 2), n_infinite=1, name="C")
K = BlockSeries(eval=lambda *i: np.eye(2) * (i[2] + 1), shape=(2, 2), n_infinite=1, name="K")

def algo():
    with "U":
        start = 1
        "C"

    with "Ud":          # adjoint of U; identity at order 0
        "U".adj

    with "M":           # -U
        -"U"

    with "W":           # U + K; at order 0: identity + K_0
        "U" + "K"

    with "Copy":        # a bare reference works
        "U"

    return "Ud", "M", "W", "Copy"

s, _ = series_computation({"C": C, "K": K}, algo)
print("Copy[0,0,0] =", s["Copy"][0, 0, 0], "(bare reference works)")
print("property demands Ud[0,0,0] = one, M[0,0,0] = -identity, W[0,0,0] = identity + K[0,0,0]")
bad = False
for name in ("Ud", "M", "W"):
    try:
        print(f"library gives  {name}[0,0,0] =", s[name][0, 0, 0])
    except Exception as e:
        bad = True
        print(f"library gives  {name}[0,0,0] -> {type(e).__name__}: {str(e)[:90]}")
sys.exit(1 if bad else 0)
