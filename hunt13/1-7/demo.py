"""`.adj` / the hermitian shortcut on plain Python numbers yields an unevaluated sympy object."""
import sys
from operator import mul
from pymablock.series import BlockSeries
from pymablock.algorithm_parsing import series_computation

# scalar blocks (1x1 subspaces), multiplied with `mul` - values are Python complex numbers
Sc = BlockSeries(eval=lambda *i: complex(i[0] + 1, i[1] + 2 + i[2]), shape=(2, 2), n_infinite=1, name="Sc")

def algo():
    with "A":
        start = 0
        "Sc".adj

    with "Hm":
        start = 0
        hermitian
        "Sc" + "Sc".adj

    with "Plain":
        start = 0
        "Sc" + "Sc".adj

    return "A", "Hm", "Plain"

s, _ = series_computation({"Sc": Sc}, algo, operator=mul)
want = Sc[1, 0, 1].conjugate()
a = s["A"][0, 1, 1]
print("property demands A[0,1,1] =", want)
print("library gives  A[0,1,1] =", repr(a), type(a))
hm, plain = s["Hm"][1, 0, 1], s["Plain"][1, 0, 1]
print("without marker Plain[1,0,1] =", repr(plain))
print("with `hermitian` Hm[1,0,1]  =", repr(hm), "| equal:", hm == plain)
ok = isinstance(a, complex) and a == want and hm == plain
try:
    complex(a)
except Exception as e:
    print("complex(A[0,1,1]) ->", type(e).__name__, e)
sys.exit(0 if ok else 1)
