"""A list/slice view evaluates the WHOLE selection at an order to serve ONE element.

Dense-array semantics: view = s[[0, 1]]  =>  view[0, k] is s[0, k] and nothing else.
Library: view[0, k] evaluates s[0, k] AND s[1, k].  Consequences shown below:
 (a) a definition that is NOT self-referential raises RuntimeError("infinite recursion");
 (b) an exception of an element that was never requested leaks into the request;
 (c) the eval log contains elements that the index expression does not select.
The all-integer view s[0] behaves correctly in the same situations.
"""
import sys
from pymablock.series import BlockSeries

bad = 0

# (a) s[1, k] := "copy of s[0, k]", read through a view.  No cycle: 1 -> 0 only.
def make(view_index):
    def ev(i, k):
        if i == 1:
            v = view[0, k] if view.shape else view[k]
            return f"copy:{v}"
        return f"a{k}"
    s = BlockSeries(eval=ev, shape=(2,), n_infinite=1)
    view = s[view_index]
    return s

print("expected (dense semantics): s[1, 2] == 'copy:a2' for every kind of view")
for label, vi in [("int view s[0]", 0), ("list view s[[0, 1]]", [0, 1]), ("slice view s[:]", slice(None))]:
    try:
        print(f"  {label:22s} ->", make(vi)[1, 2])
    except RuntimeError as e:
        bad += 1
        while e.__cause__ is not None:
            e = e.__cause__
        print(f"  {label:22s} -> RuntimeError: {e}")

# (b)+(c) unrelated element raises / is evaluated
log = []
def ev(i, k):
    log.append((int(i), int(k)))
    if i == 1:
        raise ValueError("element (1, k) is broken, but nobody asked for it")
    return f"a{k}"
s = BlockSeries(eval=ev, shape=(2,), n_infinite=1)
view = s[[0, 1]]
print("expected: view[0, 3] == 'a3', eval log == [(0, 3)]")
try:
    print("  got:", view[0, 3], log)
except ValueError as e:
    bad += 1
    print("  got ValueError:", e, "| eval log:", log)

sys.exit(1 if bad else 0)
