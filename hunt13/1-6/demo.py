"""The (anti)hermitian marker / `if lower:` return early: the result depends on statement order."""
import sys
import numpy as np
from pymablock.series import BlockSeries
from pymablock.algorithm_parsing import series_computation

def mk(seed, name):
    def val(*i):
        r = np.random.default_rng(hash((seed, *map(int, i))) % 2**32)
        return r.standard_normal((2, 2)) + 1j * r.standard_normal((2, 2))
    return BlockSeries(eval=val, shape=(2, 2), n_infinite=1, name=name)
C, D = mk(1, "C"), mk(2, "D")

def algo():
    with "T":                     # marker first (as in the shipped algorithms)
        start = 0
        hermitian
        "C" + "C".adj

    with "S":                     # same statements, marker after the expression
        start = 0
        "C" + "C".adj
        hermitian

    with "P":                     # explicit `lower` condition between two expressions
        start = 0
        "C"
        if lower:
            "D"
        "C"

    return "T", "S", "P"

s, _ = series_computation({"C": C, "D": D}, algo)
ref = C[1, 0, 1] + C[0, 1, 1].conj().T
print("T[1,0,1] == C + C^dagger:", np.allclose(s["T"][1, 0, 1], ref))
print("property demands S[1,0,1] == C + C^dagger as well:", np.allclose(s["S"][1, 0, 1], ref))
print("library gives  S[1,0,1] == 2 (C + C^dagger)      :", np.allclose(s["S"][1, 0, 1], 2 * ref))
p = s["P"][1, 0, 1]
print("P[1,0,1]: sum of all matching expressions 2C + D :", np.allclose(p, 2 * C[1, 0, 1] + D[1, 0, 1]),
      "| library: C + D (line after `if lower:` skipped):", np.allclose(p, C[1, 0, 1] + D[1, 0, 1]))
sys.exit(0 if np.allclose(s["S"][1, 0, 1], ref) else 1)
