"""C18: a product of series with zero perturbation parameters (n_infinite=0)."""
import sys
import numpy as np
from pymablock.series import BlockSeries, cauchy_dot_product

rng = np.random.default_rng(0)
a = {(i, j): rng.random((2, 2)) for i in range(2) for j in range(2)}
b = {(i, j): rng.random((2, 2)) for i in range(2) for j in range(2)}
A = BlockSeries(data=a, shape=(2, 2), n_infinite=0)
B = BlockSeries(data=b, shape=(2, 2), n_infinite=0)
print("BlockSeries itself supports n_infinite=0: A[0, 1] is a block:", A[0, 1].shape)

expected = a[0, 0] @ b[0, 1] + a[0, 1] @ b[1, 1]
print("property demands (A.B)[0,1] = sum_m A[0,m] @ B[m,1] =\n", expected)
P = cauchy_dot_product(A, B)
try:
    got = P[0, 1]
except Exception as error:  # noqa: BLE001
    print("library raises:", type(error).__name__, error)
    sys.exit(1)
print("library gives\n", got)
sys.exit(0 if np.allclose(got, expected) else 1)
