"""`start = 1` does not define the whole zeroth order: off-diagonal blocks come from the body."""
import sys
import numpy as np
from pymablock.series import BlockSeries, zero, one
from pymablock.algorithm_parsing import series_computation

def val(*i):
    r = np.random.default_rng(hash(tuple(int(k) for k in i)) % 2**32)
    return r.standard_normal((2, 2))
C = BlockSeries(eval=val, shape=(2, 2), n_infinite=1, name="C")

def algo():
    with "A":
        start = 1
        "C"

    with "Z":
        start = 0
        "C"

    return "A", "Z"

s, _ = series_computation({"C": C}, algo)
print("start = 0 : Z[0,1,0] =", s["Z"][0, 1, 0], " (start value used for every block)")
print("start = 1 : A[0,0,0] =", s["A"][0, 0, 0])
got = s["A"][0, 1, 0]
print("property demands A[0,1,0] = zero (zeroth order is the identity)")
print("library gives  A[0,1,0] =", got, "  == C[0,1,0]:", got is not zero and np.allclose(got, C[0, 1, 0]))
sys.exit(0 if got is zero else 1)
