"""`start = "A"` - the documented form, used in the docstring example - is silently ignored."""
import sys
import numpy as np
from pymablock.series import BlockSeries, zero
from pymablock.algorithm_parsing import series_computation

def mk(seed, name):
    def val(*i):
        r = np.random.default_rng(hash((seed, *map(int, i))) % 2**32)
        return r.standard_normal((2, 2))
    return BlockSeries(eval=val, shape=(2, 2), n_infinite=1, name=name)
A, D = mk(1, "A"), mk(2, "D")

def algo():            # same shape as the `with "C": start = "A"` of the docstring example
    with "C":
        start = "A"
        "D"

    with "E":
        start = "A_0"
        "D"

    return "C", "E"

s, _ = series_computation({"A": A, "D": D}, algo)
c = s["C"][0, 0, 0]
print('property demands C[0,0,0] == A[0,0,0] (start = "A": zeroth order of A):', np.allclose(c, A[0, 0, 0]))
print('library gives  C[0,0,0] == D[0,0,0] (start ignored, body evaluated)  :', np.allclose(c, D[0, 0, 0]))
print('undocumented spelling start = "A_0" works: E[0,0,0] == A[0,0,0]      :', np.allclose(s["E"][0, 0, 0], A[0, 0, 0]))
sys.exit(0 if np.allclose(c, A[0, 0, 0]) else 1)
