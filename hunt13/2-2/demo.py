"""C10: a later evaluation rewrites the caller's input arrays (sparse blocks given as list of lists).

The blocks of a perturbation are handed over as scipy CSR arrays built, without copying, from the caller's own
numpy buffers; the buffers hold duplicate entries (legal in scipy, typical for assembled matrices).
Requesting H_tilde[0, 0, 1] long after block_diagonalize() returned overwrites those buffers in place.
"""
import sys
import numpy as np
from scipy import sparse
from pymablock import block_diagonalize


def csr_with_duplicates(dense):
    """CSR holding every entry twice (half the value each); returns the matrix and the caller-owned buffers."""
    rows, cols = np.nonzero(dense)
    vals = dense[rows, cols] / 2
    rows, cols, vals = (np.concatenate([x, x]) for x in (rows, cols, vals))
    order = np.argsort(rows, kind="stable")
    data = vals[order].copy()
    indices = cols[order].astype(np.int32)
    indptr = np.concatenate([[0], np.cumsum(np.bincount(rows, minlength=dense.shape[0]))]).astype(np.int32)
    return sparse.csr_array((data, indices, indptr), shape=dense.shape), (data, indices, indptr)


h0 = [[sparse.csr_array(np.diag([0.0, 1.0])), 0], [0, sparse.csr_array(np.diag([3.0, 4.0]))]]
p = np.array([[0.0, 1.0, 2.0, 3.0], [1.0, 0.5, 4.0, 5.0], [2.0, 4.0, 0.0, 6.0], [3.0, 5.0, 6.0, 1.0]])
(p00, buf00), (p01, _), (p10, _), (p11, _) = (csr_with_duplicates(b) for b in (p[:2, :2], p[:2, 2:], p[2:, :2], p[2:, 2:]))
assert np.shares_memory(buf00[0], p00.data)  # scipy did not copy: these are the caller's arrays
before = [b.copy() for b in buf00]

H_tilde, U, U_inv = block_diagonalize([h0, [[p00, p01], [p10, p11]]])
after_build = all(np.array_equal(x, y) for x, y in zip(before, buf00))
H_tilde[0, 0, 1]  # a later evaluation
after_eval = all(np.array_equal(x, y) for x, y in zip(before, buf00))

print("demanded : caller's input arrays unchanged by evaluations")
print("after block_diagonalize() returned, buffers unchanged:", after_build)
print("after H_tilde[0, 0, 1], buffers unchanged           :", after_eval)
print("data    before:", before[0], " after:", buf00[0])
print("indices before:", before[1], " after:", buf00[1])
print("indptr  before:", before[2], " after:", buf00[2])
sys.exit(0 if after_eval else 1)
