"""Linear-operator (implicit) mode: a three-factor product, and `series[product]` at the flagged
block, fail with ndarray + LinearOperator although the explicit computation is fine."""
import sys
import numpy as np
from scipy.sparse.linalg import aslinearoperator
from pymablock.series import BlockSeries, zero
from pymablock.algorithm_parsing import series_computation

size = [2, 5]
def val(*i):
    r = np.random.default_rng(hash(tuple(map(int, i))) % 2**32)
    return r.standard_normal((size[i[0]], size[i[1]]))
def explicit(*i):
    return zero if i[2] == 0 else val(*i)
def implicit(*i):      # as in block_diagonalize(implicit): last diagonal block is a LinearOperator
    v = explicit(*i)
    return aslinearoperator(v) if (v is not zero and i[:2] == (1, 1)) else v

def algo():
    with "S":
        start = 0
        "C @ C @ C" + "C"

    with "P":
        start = 0
        "C @ C"

    with "C @ C @ C":
        pass

    with "C @ C":
        pass

    return "S", "P"

Ce = BlockSeries(eval=explicit, shape=(2, 2), n_infinite=1, name="C")
Ci = BlockSeries(eval=implicit, shape=(2, 2), n_infinite=1, name="C")
ref, _ = series_computation({"C": Ce}, algo)
flags = np.zeros((2, 2), dtype=bool); flags[1, 1] = True
s, lo = series_computation({"C": Ci}, algo, scope={"use_linear_operator": flags})
bad = False
for label, get, want in [
    ("S[1,0,3] (output, 5x2 block)", lambda: s["S"][1, 0, 3], ref["S"][1, 0, 3]),
    ("series['C @ C'][1,1,2] (non-output)", lambda: s["C @ C"][1, 1, 2], ref["C @ C"][1, 1, 2]),
    ("P[1,1,2] (uses the linear-operator copy)", lambda: s["P"][1, 1, 2] @ np.eye(5), ref["P"][1, 1, 2]),
]:
    try:
        print(label, "-> equals explicit value:", np.allclose(get(), want))
    except Exception as e:
        bad = True
        print(label, "->", type(e).__name__, str(e)[:60])
sys.exit(1 if bad else 0)
