"""An algorithm that is not a top-level function of a module cannot be compiled."""
import sys
import numpy as np
from pymablock.series import BlockSeries
from pymablock.algorithm_parsing import series_computation

C = BlockSeries(eval=lambda *i: np.eye(2) * (1 + i[2]), shape=(2, 2), n_infinite=1, name="C")

def top_level():
    with "S":
        start = 0
        "C" + "C"

    return "S"

def make():
    def nested():
        with "S":
            start = 0
            "C" + "C"

        return "S"
    return nested

class Algorithms:
    @staticmethod
    def method():
        with "S":
            start = 0
            "C" + "C"

        return "S"

bad = False
for name, algo in [("top-level", top_level), ("nested function", make()), ("staticmethod", Algorithms.method)]:
    try:
        s, _ = series_computation({"C": C}, algo)
        print(f"{name:16s}: S[0,0,1] == 2C:", np.allclose(s["S"][0, 0, 1], 2 * C[0, 0, 1]))
    except Exception as e:
        bad = True
        print(f"{name:16s}: {type(e).__name__}: {e}")
print("property demands: the same program compiles to the same series wherever it is written")
sys.exit(1 if bad else 0)
