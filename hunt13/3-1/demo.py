"""C11: a callback exception must reach the caller.  A RuntimeError *subclass*
(NotImplementedError, RecursionError, ...) raised by a user callback is replaced
by a plain RuntimeError at every BlockSeries level, so `except NotImplementedError`
in the caller never fires (KeyboardInterrupt/ValueError pass through unchanged)."""
import sys
import numpy as np
from pymablock import block_diagonalize
from pymablock.series import BlockSeries, zero

h0 = np.diag([0.0, 1.0, 5.0, 6.0]); h1 = np.ones((4, 4))
fail = {"on": False}

def h_eval(i, j, order):
    if order == 3 and fail["on"]:
        raise NotImplementedError("third-order term is not available")
    m = {0: h0, 1: h1}.get(order)
    return zero if m is None or (order == 0 and i != j) else m[2*i:2*i+2, 2*j:2*j+2]

H = BlockSeries(eval=h_eval, shape=(2, 2), n_infinite=1)
H_tilde, U, U_adj = block_diagonalize(H)
fail["on"] = True
caught = None
try:
    try:
        H_tilde[0, 0, 3]
    except NotImplementedError as e:      # what the property demands
        caught = e
except BaseException as e:                # what the library delivers
    caught = e
depth, c = 0, caught
while c is not None and not isinstance(c, NotImplementedError):
    c, depth = c.__cause__, depth + 1
print("callback raised : NotImplementedError")
print("caller received :", type(caught).__name__, "-", caught)
print("original found  :", depth, "levels down the __cause__ chain")
fail["on"] = False
ref = block_diagonalize(BlockSeries(eval=h_eval, shape=(2, 2), n_infinite=1))[0][0, 0, 3]
print("value after fault equals clean value:", np.array_equal(H_tilde[0, 0, 3], ref))
if not isinstance(caught, NotImplementedError):
    print("VIOLATION: exception type changed; `except NotImplementedError` does not catch it")
    sys.exit(1)
print("ok")
