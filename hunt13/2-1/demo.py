"""C10: two computations built from the same input dictionary contaminate each other.

series_computation() writes every computed series into the caller's input dict and the
generated evals look series up *by name in that dict at evaluation time*.  Building a
second computation from the same dict therefore silently rewires the first one.
"""
import sys
import numpy as np
from pymablock.algorithm_parsing import series_computation
from pymablock.algorithms import main, nonhermitian
from pymablock.block_diagonalization import operator_to_BlockSeries, solve_sylvester_diagonal

rng = np.random.default_rng(0)
h0 = np.diag([0.0, 1.0, 3.0, 4.5])
a = rng.normal(size=(4, 4)) + 1j * rng.normal(size=(4, 4))
h1 = a + a.conj().T
eigs = (np.array([0.0, 1.0]), np.array([3.0, 4.5]))


def H():
    return operator_to_BlockSeries([h0, h1], subspace_indices=[0, 0, 1, 1], hermitian=True, name="H")


def scope():
    return dict(
        solve_sylvester=solve_sylvester_diagonal(eigs),
        use_linear_operator=np.zeros((2, 2), dtype=bool),
        two_block_optimized=True,
        commuting_blocks=[True, True],
    )


index = (0, 0, 4)
fresh = series_computation({"H": H()}, main, scope())[0]["H_tilde"][index]

inputs = {"H": H()}
keys_before = list(inputs)
first, _ = series_computation(inputs, main, scope())
H_tilde_first = first["H_tilde"]          # output of the first computation
low = H_tilde_first[0, 0, 2]              # some history
# a second computation built from the same input objects
second, _ = series_computation(inputs, nonhermitian, scope())
value = H_tilde_first[index]              # first computation, evaluated after the second was built

print("input dict keys before:", keys_before, "-> after:", len(inputs), "keys; returned dict is input dict:", first is inputs)
print("demanded : H_tilde[0,0,4] of the first computation equals the fresh value")
err = np.abs(value - fresh).max()
print("observed : max |value - fresh| =", err)
sys.exit(1 if err > 1e-10 else 0)
