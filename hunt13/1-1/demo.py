"""Two computations that share the caller's input dict: the second rewires the first."""
import sys
import numpy as np
from pymablock.series import BlockSeries
from pymablock.algorithm_parsing import series_computation

def val(*i):
    r = np.random.default_rng(hash(tuple(int(k) for k in i)) % 2**32)
    return r.standard_normal((2, 2))
C = BlockSeries(eval=val, shape=(2, 2), n_infinite=1, name="C")

def algo():
    with "B":
        start = 0
        f("C")

    with "A":
        start = 0
        "B" + "C"

    return "A"

inputs = {"C": C}
out1, _ = series_computation(inputs, algo, scope={"f": lambda s, idx: s[idx] * 2})
A1 = out1["A"]                       # A = 2C + C = 3C
first = np.allclose(A1[0, 1, 1], 3 * C[0, 1, 1])
out2, _ = series_computation(inputs, algo, scope={"f": lambda s, idx: s[idx] * 10})
got = A1[0, 1, 2]                    # still the FIRST computation's series
print("caller's dict was mutated, keys now:", sorted(inputs), "| out1 is out2:", out1 is out2)
print("A1[0,1,1] == 3*C (requested before 2nd call):", first)
print("property demands A1[0,1,2] == 3*C[0,1,2]   :", np.allclose(got, 3 * C[0, 1, 2]))
print("library gives  A1[0,1,2] == 11*C[0,1,2]    :", np.allclose(got, 11 * C[0, 1, 2]))
sys.exit(0 if np.allclose(got, 3 * C[0, 1, 2]) else 1)
