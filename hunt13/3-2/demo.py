"""C11: a TypeError raised inside a user element's division is swallowed by
`_safe_divide` (algorithm_parsing.py:639-644): no exception reaches the caller,
the computation silently goes on with `x * (1 / d)` and caches that value, which
differs from the value of the undisturbed computation (`x / d`)."""
import sys
import numpy as np
from pymablock.series import BlockSeries, zero
from pymablock.algorithm_parsing import series_computation

state = {"fail_next_div": False, "calls": 0}

class Elem:                      # user-defined algebra element
    def __init__(self, a): self.a = np.asarray(a, dtype=float)
    def __add__(self, o): return Elem(self.a + o.a)
    def __matmul__(self, o): return Elem(self.a @ o.a)
    def __mul__(self, c): return Elem(self.a * c)
    def __truediv__(self, c):
        state["calls"] += 1
        if state["fail_next_div"]:
            state["fail_next_div"] = False
            raise TypeError("transient failure inside the user's division")
        return Elem(self.a / c)

def algo():
    with "B":
        start = 0
        "A" / 3
    return "B"

def make():
    A = BlockSeries(eval=lambda i, j, n: Elem(0.1 * (n + i + 2 * j + 1) * np.arange(1.0, 10.0).reshape(3, 3)),
                    shape=(2, 2), n_infinite=1)
    return series_computation({"A": A}, algo)[0]["B"]

clean = make()[0, 1, 1].a
B = make()
state["fail_next_div"] = True
raised = None
try:
    first = B[0, 1, 1].a
except BaseException as e:
    raised = e
later = B[0, 1, 1].a
print("property : TypeError reaches the caller, later B[0,1,1] ==", clean.ravel()[:4])
print("library  : exception reaching caller =", repr(raised))
print("           later B[0,1,1] =", later.ravel()[:4], " bitwise equal to clean:", np.array_equal(later, clean))
if raised is None or not np.array_equal(later, clean):
    print("           max |later - clean| =", np.abs(later - clean).max()); print("VIOLATION")
    sys.exit(1)
print("ok")
