"""C18 (low confidence): hermitian=True with stacked (batched) matrices as elements."""
import sys
import numpy as np
from pymablock.series import BlockSeries, cauchy_dot_product

rng = np.random.default_rng(0)
cache = {}


def eval_(i, j, n):  # a stack of 5 Hermitian block matrices, blocks of size 2
    if (i, j, n) not in cache:
        v = rng.random((5, 2, 2)) + 1j * rng.random((5, 2, 2))
        cache[i, j, n] = v + v.conj().transpose(0, 2, 1) if i == j else v
        cache[j, i, n] = cache[i, j, n].conj().transpose(0, 2, 1)
    return cache[i, j, n]


H = lambda: BlockSeries(eval=eval_, shape=(2, 2))  # noqa: E731
plain = cauchy_dot_product(H(), H(), H())
herm = cauchy_dot_product(H(), H(), H(), hermitian=True)
a, b = plain[1, 0, 2], herm[1, 0, 2]
print("product is Hermitian slice by slice:",
      np.allclose(plain[1, 0, 2], plain[0, 1, 2].conj().transpose(0, 2, 1)))
print("hermitian=False: shape", a.shape, "  hermitian=True: shape", b.shape)
same = a.shape == b.shape and np.allclose(a, b)
print("property demands identical values; identical:", same)
sys.exit(0 if same else 1)
