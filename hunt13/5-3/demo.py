"""C18: hermitian=True changes values when the elements are Python scalars."""
import sys
from operator import mul
from pymablock.series import BlockSeries, cauchy_dot_product, zero

# Hermitian series of 1x1 blocks given as Python numbers: H[j,i,n] = conj(H[i,j,n]).
h = {
    (0, 0, 0): 1.0, (1, 1, 0): 2.0, (0, 1, 0): 0.5 + 1j, (1, 0, 0): 0.5 - 1j,
    (0, 0, 1): 0.3, (1, 1, 1): -0.7, (0, 1, 1): 2 - 3j, (1, 0, 1): 2 + 3j,
}
H = lambda: BlockSeries(data=h, shape=(2, 2))  # noqa: E731
bad = False
for factors in (2, 3):
    plain = cauchy_dot_product(*[H() for _ in range(factors)], operator=mul)
    herm = cauchy_dot_product(*[H() for _ in range(factors)], operator=mul, hermitian=True)
    for index in [(0, 0, 1), (0, 1, 1), (1, 0, 1), (1, 1, 1)]:
        want, got = plain[index], herm[index]
        try:
            same = abs(complex(got) - complex(want)) < 1e-12
        except Exception as error:  # noqa: BLE001
            same = False
            got = f"{got!r}  ({type(got).__name__}; complex() -> {type(error).__name__})"
        print(f"{factors} factors {index}: hermitian=False {want!r:>12}   hermitian=True {got}")
        bad |= not same
print("property demands identical values; violated:", bad)
sys.exit(1 if bad else 0)
