"""An out-of-range all-integer finite index silently returns a view.

Dense array: a[5, 0] on finite shape (2, 2) raises IndexError at once.
Library: s[5, 0] returns a BlockSeries; the IndexError only appears when an element is
read. The same index written with a list/slice (s[5, [0]]) does raise at once.
"""
import sys
import numpy as np
from pymablock.series import BlockSeries

s = BlockSeries(eval=lambda *i: "v", shape=(2, 2), n_infinite=1)
dense = np.empty((2, 2, 4), dtype=object)
bad = 0
for label, idx in [("s[5, 0]", (5, 0)), ("s[-3, 1]", (-3, 1)), ("s[5, [0]]", (5, [0]))]:
    try:
        dense[idx]; want = "value"
    except IndexError:
        want = "IndexError"
    try:
        got = type(s[idx]).__name__
    except IndexError:
        got = "IndexError"
    print(f"{label:10s} dense: {want:10s} library: {got}")
    bad += want != got
v = s[5, 0]
try:
    v[1]
except IndexError as e:
    print("deferred until element access:", e)
sys.exit(1 if bad else 0)
