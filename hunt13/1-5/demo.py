"""Only the first expression under `if diagonal:` / `if offdiagonal:` is compiled; the rest is dropped."""
import sys
import numpy as np
from pymablock.series import BlockSeries
from pymablock.algorithm_parsing import series_computation

def mk(seed, name):
    def val(*i):
        r = np.random.default_rng(hash((seed, *map(int, i))) % 2**32)
        return r.standard_normal((2, 2))
    return BlockSeries(eval=val, shape=(2, 2), n_infinite=1, name=name)
C, D = mk(1, "C"), mk(2, "D")

def algo():
    with "S":              # two expressions under one condition
        start = 0
        if diagonal:
            "C"
            "D"

    with "T":              # same thing written with two ifs (as `B` in algorithms.main)
        start = 0
        if diagonal:
            "C"
        if diagonal:
            "D"

    return "S", "T"

s, _ = series_computation({"C": C, "D": D}, algo)
want = C[0, 0, 1] + D[0, 0, 1]
print("T[0,0,1] == C + D:", np.allclose(s["T"][0, 0, 1], want))
print("property demands S[0,0,1] == C + D (multiple expressions are summed):", np.allclose(s["S"][0, 0, 1], want))
print("library gives  S[0,0,1] == C only, `\"D\"` silently dropped      :", np.allclose(s["S"][0, 0, 1], C[0, 0, 1]))
sys.exit(0 if np.allclose(s["S"][0, 0, 1], want) else 1)
