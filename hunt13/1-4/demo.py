"""An integer literal on the LEFT of a product (`2 * "Z"`) fails when the block is `zero`."""
import sys
import numpy as np
from pymablock.series import BlockSeries, zero
from pymablock.algorithm_parsing import series_computation

def val(*i):
    if i[0] == i[1]:
        return zero                      # legal: missing blocks are the `zero` sentinel
    r = np.random.default_rng(hash(tuple(map(int, i))) % 2**32)
    return r.standard_normal((2, 2))
Z = BlockSeries(eval=val, shape=(2, 2), n_infinite=1, name="Z")

def algo():
    with "R":
        start = 0
        "Z" * 2

    with "L":
        start = 0
        2 * "Z"

    with "M":
        start = 0
        "Z" - 2 * "Z"

    return "R", "L", "M"

s, _ = series_computation({"Z": Z}, algo)
print('"Z" * 2 at a zero block:', s["R"][0, 0, 1], "| at a non-zero block ok:", np.allclose(s["R"][0, 1, 1], 2 * Z[0, 1, 1]))
print("property demands L[0,0,1] = zero and M[0,0,1] = zero (same as R)")
bad = False
for name in ("L", "M"):
    try:
        v = s[name][0, 0, 1]
        print(f"library gives  {name}[0,0,1] =", v)
        bad |= v is not zero
    except Exception as e:
        print(f"library gives  {name}[0,0,1] -> {type(e).__name__}: {e}")
        bad = True
print("non-zero block still fine: L[0,1,1] == 2*Z:", np.allclose(s["L"][0, 1, 1], 2 * Z[0, 1, 1]))
sys.exit(1 if bad else 0)
