"""C18: the `one` sentinel as identity in a sum with another term."""
import sys
import numpy as np
from pymablock.series import BlockSeries, cauchy_dot_product, one, zero

rng = np.random.default_rng(0)
X, Y = rng.random((2, 3)), rng.random((3, 2))
# (1 + S)(1 + T) with zeroth-order off-diagonal blocks S_01 = X, T_10 = Y.
A = BlockSeries(data={(0, 0, 0): one, (1, 1, 0): one, (0, 1, 0): X}, shape=(2, 2))
B = BlockSeries(data={(0, 0, 0): one, (1, 1, 0): one, (1, 0, 0): Y}, shape=(2, 2))
expected = np.eye(2) + X @ Y
print("property demands (A.B)[0,0,0] = 1*1 + X@Y =\n", expected)
bad = False
P = cauchy_dot_product(A, B)
print("other elements are fine: P[0,1,0] is X:", P[0, 1, 0] is X, "; P[1,1,0] =", P[1, 1, 0])
try:
    got = P[0, 0, 0]
    print("library gives", got)
    bad = got is one or got is zero or not np.allclose(got, expected)
except Exception as error:  # noqa: BLE001
    print("library raises:", type(error).__name__, error)
    bad = True

# Same with a single block and `one` at two orders: (1 + 1*t)(1 + 1*t) at order t.
C = BlockSeries(data={(0, 0, 0): one, (0, 0, 1): one}, shape=(1, 1))
print("property demands ((1+t)(1+t))[0,0,1] = 2 * identity")
try:
    print("library gives", cauchy_dot_product(C, C)[0, 0, 1])
except Exception as error:  # noqa: BLE001
    print("library raises:", type(error).__name__, error)
    bad = True
sys.exit(1 if bad else 0)
