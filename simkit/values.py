"""Canonical forms, comparison rules, and an exact provenance-carrying element type.

T is the free *-algebra over Q with opaque function atoms: immutable, hashable, exact,
non-commutative.  Every value is its own provenance, so a dropped, duplicated or reordered
term shows up as inequality.
"""
import hashlib
from fractions import Fraction

import numpy as np

FLOAT_RTOL = 1e-9  # verdict tolerance (bit equality expected; differences are counted)


class TracerOverflow(Exception):
    """The exact expression grew beyond the budget of a run (the run is skipped, not judged)."""


TRACER_LIMIT = 4000


class T:
    __slots__ = ("terms", "_h", "_k")
    __array_ufunc__ = None

    def __init__(self, terms):
        self.terms = {w: c for w, c in terms.items() if c != 0}
        self._h = None
        self._k = None

    @staticmethod
    def gen(name):
        return T({(((name,), False),): Fraction(1)})

    @staticmethod
    def fun(name, arg, *extra):
        """Opaque function atom; the argument enters through a digest of its canonical form (hash-consing)."""
        key = hashlib.sha256(repr(arg.key()).encode()).hexdigest()[:20] if isinstance(arg, T) else repr(arg)
        return T({(((name, key, *extra), False),): Fraction(1)})

    def key(self):
        if self._k is None:
            self._k = tuple(sorted((w, (c.numerator, c.denominator)) for w, c in self.terms.items()))
        return self._k

    def __hash__(self):
        if self._h is None:
            self._h = hash(self.key())
        return self._h

    def __eq__(self, o):
        return isinstance(o, T) and self.terms == o.terms

    def __ne__(self, o):
        return not self.__eq__(o)

    def __add__(self, o):
        if not isinstance(o, T):
            return NotImplemented
        T.work += len(o.terms) + 1
        if T.work > T.budget:
            raise TracerOverflow()
        d = dict(self.terms)
        for w, c in o.terms.items():
            d[w] = d.get(w, 0) + c
        return T(d)

    def __neg__(self):
        return T({w: -c for w, c in self.terms.items()})

    def __pos__(self):
        return self

    def __sub__(self, o):
        if not isinstance(o, T):
            return NotImplemented
        return self + (-o)

    work = 0
    budget = 10 ** 9

    def _mul(self, o):
        T.work += len(self.terms) * len(o.terms) + 1
        if T.work > T.budget or len(self.terms) * len(o.terms) > TRACER_LIMIT * 8:
            raise TracerOverflow()
        d = {}
        for w1, c1 in self.terms.items():
            for w2, c2 in o.terms.items():
                w = w1 + w2
                d[w] = d.get(w, 0) + c1 * c2
        return T(d)

    def __matmul__(self, o):
        if not isinstance(o, T):
            return NotImplemented
        return self._mul(o)

    def __mul__(self, o):
        if isinstance(o, T):
            return self._mul(o)
        if isinstance(o, (int, Fraction)):
            return T({w: c * o for w, c in self.terms.items()})
        return NotImplemented

    def __rmul__(self, o):
        if isinstance(o, (int, Fraction)):
            return T({w: c * o for w, c in self.terms.items()})
        return NotImplemented

    def __truediv__(self, o):
        if isinstance(o, (int, Fraction)):
            return T({w: c / Fraction(o) for w, c in self.terms.items()})
        return NotImplemented

    def adjoint(self):
        return T({tuple((a, not d) for a, d in reversed(w)): c for w, c in self.terms.items()})

    def __repr__(self):
        if not self.terms:
            return "T(0)"
        parts = []
        for w, c in sorted(self.terms.items(), key=lambda kv: repr(kv[0])):
            word = "·".join(("%s%s" % ("/".join(map(str, a)) if len(a) == 1 else a[0] + "(..)", "†" if d else "")) for a, d in w)
            parts.append(f"{c}*{word}")
        s = " + ".join(parts)
        return "T(" + (s if len(s) < 200 else s[:200] + "...") + ")"


class W:
    """A caller-defined element type: an immutable wrapper around a complex matrix whose own multiplication is a
    user callback (it reports to `W.hook`, which may inject a fault)."""

    __slots__ = ("a",)
    __array_ufunc__ = None
    hook = None

    def __init__(self, a):
        self.a = np.array(a, dtype=complex)
        self.a.setflags(write=False)

    @property
    def shape(self):
        return self.a.shape

    @staticmethod
    def _raw(o):
        return o.a if isinstance(o, W) else o

    def __matmul__(self, o):
        if W.hook is not None:
            W.hook()
        return W(self.a @ W._raw(o))

    def __rmatmul__(self, o):
        if W.hook is not None:
            W.hook()
        return W(W._raw(o) @ self.a)

    def __add__(self, o):
        return W(self.a + o.a) if isinstance(o, W) else NotImplemented

    def __sub__(self, o):
        return W(self.a - o.a) if isinstance(o, W) else NotImplemented

    def __neg__(self):
        return W(-self.a)

    def __pos__(self):
        return self

    def __mul__(self, o):
        return W(self.a * o) if isinstance(o, (int, float, complex)) else NotImplemented

    __rmul__ = __mul__

    def __truediv__(self, o):
        return W(self.a / o) if isinstance(o, (int, float, complex)) else NotImplemented

    def adjoint(self):
        return W(self.a.conj().T)

    def __eq__(self, o):
        if isinstance(o, W):
            return self.a.shape == o.a.shape and bool(np.all(self.a == o.a))
        if isinstance(o, (int, float, complex)):
            return bool(np.all(self.a == o))
        return NotImplemented

    __hash__ = None

    def __repr__(self):
        return "W(" + repr(self.a).replace("\n", " ") + ")"


# ---------------------------------------------------------------------------------------
# canonical forms


def _sent():
    from pymablock.series import one, zero

    return zero, one


def norm(v):
    """Normalised comparable form of a value handed out by the library."""
    zero, one = _sent()
    if v is zero:
        return ("zero",)
    if v is one:
        return ("one",)
    if isinstance(v, T):
        return ("T", v.key())
    if isinstance(v, W):
        return ("arr", v.a)
    if isinstance(v, np.ma.MaskedArray):
        data = v.filled(zero) if v.dtype == object else v.filled(0)
        if v.dtype == object:
            return ("ma", v.shape, tuple(norm(x) for x in data.ravel()))
        return ("arr", np.asarray(data))
    if v is np.ma.masked:
        return ("zero",)
    try:
        from scipy import sparse

        if sparse.issparse(v):
            return ("arr", np.asarray(v.toarray()))
        from scipy.sparse.linalg import LinearOperator

        if isinstance(v, LinearOperator):
            return ("arr", np.asarray(v @ np.eye(v.shape[1])))
    except ImportError:  # pragma: no cover
        pass
    if isinstance(v, np.ndarray):
        if v.dtype == object:
            return ("oarr", v.shape, tuple(norm(x) for x in v.ravel()))
        return ("arr", v)
    import sympy

    if isinstance(v, sympy.MatrixBase):
        return ("sym", v.shape, tuple(sympy.expand(x) for x in v))
    if isinstance(v, sympy.Basic):
        return ("sye", sympy.expand(v))
    if isinstance(v, (int, float, complex, Fraction, np.number)):
        return ("num", complex(v) if not isinstance(v, Fraction) else v)
    return ("obj", type(v).__name__, repr(v))


def same(a, b, stats=None, floor=1.0):
    """Equality of two normal forms under the comparison rules (DESIGN 3.5).

    Float verdict: |a - b| <= FLOAT_RTOL * (floor + max|a|); floor = 0 makes it purely relative."""
    if a[0] != b[0]:
        return False
    tag = a[0]
    if tag in ("zero", "one"):
        return True
    if tag == "arr":
        x, y = a[1], b[1]
        if x.shape != y.shape:
            return False
        if x.dtype == y.dtype and x.tobytes() == y.tobytes():
            return True
        with np.errstate(all="ignore"):
            scale = floor + float(np.max(np.abs(x), initial=0.0)) if np.all(np.isfinite(x)) else 1.0
            scale = max(scale, 1e-300)
            ok = bool(np.all(np.isclose(x, y, rtol=0, atol=FLOAT_RTOL * scale, equal_nan=True)))
        if ok and stats is not None:
            stats["bit_different_close"] = stats.get("bit_different_close", 0) + 1
        return ok
    if tag in ("ma", "oarr"):
        return a[1] == b[1] and len(a[2]) == len(b[2]) and all(same(x, y, stats, floor) for x, y in zip(a[2], b[2]))
    if tag == "sym":
        if a[1] != b[1]:
            return False
        if a[2] == b[2]:
            return True
        import sympy

        ok = all(sympy.simplify(x - y) == 0 for x, y in zip(a[2], b[2]))
        if ok and stats is not None:
            stats["sym_structural_diff"] = stats.get("sym_structural_diff", 0) + 1
        return ok
    if tag == "sye":
        import sympy

        return a[1] == b[1] or sympy.simplify(a[1] - b[1]) == 0
    return a == b


def fingerprint(n) -> str:
    """Short stable hash of a normal form (for event logs)."""
    h = hashlib.sha256()
    _feed(h, n)
    return h.hexdigest()[:16]


def _feed(h, n):
    tag = n[0]
    h.update(tag.encode())
    if tag == "arr":
        x = np.ascontiguousarray(n[1])
        h.update(str(x.shape).encode())
        h.update(str(x.dtype).encode())
        h.update(x.tobytes())
    elif tag in ("ma", "oarr"):
        h.update(str(n[1]).encode())
        for x in n[2]:
            _feed(h, x)
    elif tag == "sym":
        h.update(str(n[1]).encode())
        import sympy

        for x in n[2]:
            h.update(sympy.srepr(x).encode())
    elif tag == "sye":
        import sympy

        h.update(sympy.srepr(n[1]).encode())
    else:
        h.update(repr(n[1:]).encode())


def snapshot(v):
    """Deep, independent copy of the normal form, for mutation audits."""
    n = norm(v)
    if n[0] == "arr":
        return ("arr", np.array(n[1], copy=True))
    if n[0] in ("ma", "oarr"):
        return (n[0], n[1], tuple(snapshot_n(x) for x in n[2]))
    return n


def snapshot_n(n):
    if n[0] == "arr":
        return ("arr", np.array(n[1], copy=True))
    if n[0] in ("ma", "oarr"):
        return (n[0], n[1], tuple(snapshot_n(x) for x in n[2]))
    return n
