"""Batch driver: seeded runs on a fork pool, budgets, watchdog, shrinking, replay, evidence."""
import concurrent.futures as cf
import faulthandler
import hashlib
import json
import multiprocessing
import os
import signal
import subprocess
import sys
import time
import traceback

from . import boot, rng

HERE = boot.HERE


class RunTimeout(BaseException):
    pass


def _alarm(signum, frame):
    raise RunTimeout()


def reset_library_caches():
    """Every run starts like a fresh process as far as the library's own module-level memo functions go
    (functools.cache / lru_cache objects in pymablock modules and on their classes): the outcome of a run never depends on
    what its worker executed before, and state that the library keeps across computations is created *inside* the run,
    where the oracle can see its effect."""
    import sys

    for name, mod in list(sys.modules.items()):
        if not name.startswith("pymablock") or mod is None:
            continue
        for obj in list(vars(mod).values()):
            targets = [obj]
            if isinstance(obj, type) and getattr(obj, "__module__", "").startswith("pymablock"):
                targets += list(vars(obj).values())
            for t in targets:
                clear = getattr(t, "cache_clear", None)
                if callable(clear):
                    try:
                        clear()
                    except Exception:  # noqa: BLE001
                        pass


def run_case(prop, case, timeout=None):
    """Execute one case under a watchdog.  Returns (outcome | None, harness_error | None)."""
    timeout = timeout or getattr(prop, "run_timeout", 60)
    reset_library_caches()
    old = signal.signal(signal.SIGALRM, _alarm)
    signal.setitimer(signal.ITIMER_REAL, timeout)
    try:
        out = prop.execute(case)
        return out, None
    except RunTimeout:
        if getattr(prop, "hang_is_violation", False):
            return {"violation": {"class": "hang", "detail": f"no progress within {timeout}s"}, "digest": "hang",
                    "events": 0, "nontrivial": False, "counters": {}}, None
        return None, "timeout"
    except Exception:
        return None, traceback.format_exc()
    finally:
        signal.setitimer(signal.ITIMER_REAL, 0)
        signal.signal(signal.SIGALRM, old)


def gen_case(prop, seed, idx, tier):
    r = rng.rnd(seed, prop.id, idx, "case")
    case = prop.generate(r, tier, idx)
    return case


_PROP = None


def _chunk(args):
    seed, start, stop, tier = args
    prop = _PROP
    res = {"n": 0, "digests": [], "nontrivial": [], "counters": {}, "violations": [], "errors": [],
           "events": 0, "states": [], "sample": None, "timeouts": 0}
    for idx in range(start, stop):
        try:
            case = gen_case(prop, seed, idx, tier)
        except Exception:
            res["errors"].append((idx, "generate: " + traceback.format_exc()))
            continue
        out, err = run_case(prop, case)
        res["n"] += 1
        if err is not None:
            if err == "timeout":
                res["timeouts"] += 1
            res["errors"].append((idx, err))
            continue
        res["digests"].append(out["digest"][:16])
        res.setdefault("pairs", []).append((idx, out["digest"][:16]))
        if out.get("nontrivial"):
            res["nontrivial"].append(out["digest"][:16])
        for k, v in out.get("counters", {}).items():
            res["counters"][k] = res["counters"].get(k, 0) + v
        res["events"] += out.get("events", 0)
        res["states"].extend(out.get("states", ())[:64])
        if out.get("violation"):
            fid = prop.match_known(case, out["violation"]) if hasattr(prop, "match_known") else None
            if fid is not None and fid in getattr(prop, "known_ids", ()):
                res["counters"]["known:" + fid] = res["counters"].get("known:" + fid, 0) + 1
            else:
                res["violations"].append((idx, case, out["violation"]))
        if res["sample"] is None and out.get("nontrivial"):
            res["sample"] = {"run": idx, "case": case, "digest": out["digest"][:16], "events": out.get("events", 0)}
    return res


def shrink(prop, case, vclass, budget_s=90, log=None):
    """Greedy minimisation: keep a candidate iff it still produces the same violation class."""
    t0 = time.time()
    best = case
    tried = 0
    improved = True
    while improved and time.time() - t0 < budget_s:
        improved = False
        for cand in prop.shrink_candidates(best):
            if time.time() - t0 > budget_s:
                break
            tried += 1
            out, err = run_case(prop, cand, timeout=getattr(prop, "run_timeout", 60))
            if err is None and out.get("violation") and out["violation"]["class"] == vclass:
                best = cand
                improved = True
                break
    if log is not None:
        log["shrink_tried"] = tried
    return best


def dd_list(lst):
    """Candidate sublists for delta debugging: drop halves, quarters, ..., single items."""
    n = len(lst)
    if n == 0:
        return
    size = n // 2
    seen = set()
    while size >= 1:
        for start in range(0, n, size):
            cand = lst[:start] + lst[start + size:]
            key = (start, size)
            if len(cand) < n and key not in seen:
                seen.add(key)
                yield cand
        size //= 2


def load_known():
    path = os.path.join(HERE, "known_findings.json")
    if not os.path.exists(path):
        return []
    return json.load(open(path))


def write_replay(prop, seed, idx, case, violation, digest):
    rdir = os.environ.get("VERIF_REPLAY_DIR", os.path.join(HERE, "replays"))
    os.makedirs(rdir, exist_ok=True)
    path = os.path.join(rdir, f"{prop.id}-{seed}-{idx}.json")
    json.dump({"property": prop.id, "seed": seed, "run": idx, "case": case, "violation": violation,
               "digest": digest, "repo_head": boot.repo_head()}, open(path, "w"), indent=1, default=str)
    return path


def replay(prop, path, quiet=False):
    doc = json.load(open(path))
    prop.known_ids = {k["id"] for k in load_known() if k.get("property") == prop.id and k.get("status") == "known"}
    out, err = run_case(prop, doc["case"])
    if err is not None:
        print("HARNESS-ERROR during replay:\n" + err)
        return 3
    v = out.get("violation")
    print(f"replay digest={out['digest'][:16]} recorded={str(doc.get('digest'))[:16]} events={out.get('events')}")
    if v:
        print(f"violation class={v['class']}\n  detail: {v['detail']}")
        print(f"VIOLATION property={prop.id} replay={path}")
        return 1
    print("no violation on replay")
    return 0


def run_batch(prop, tier, seed):
    global _PROP
    _PROP = prop
    prop.known_ids = {k["id"] for k in load_known() if k.get("property") == prop.id and k.get("status") == "known"}
    t0 = time.time()
    cfg = prop.tiers[tier]
    budget = float(os.environ.get("VERIF_BUDGET_S", cfg["budget_s"]))
    max_runs = int(os.environ.get("VERIF_RUNS", cfg["runs"]))
    workers = int(os.environ.get("VERIF_WORKERS", min(16, os.cpu_count() or 1)))
    chunk = int(cfg.get("chunk", 20))
    faulthandler.dump_traceback_later(budget * 3 + 600, exit=True)
    print(f"seed={seed} property={prop.id} tier={tier} max_runs={max_runs} budget_s={budget} workers={workers} "
          f"src={boot.SRC} head={boot.repo_head()}", flush=True)

    agg = {"n": 0, "digests": set(), "nontrivial": set(), "counters": {}, "violations": [], "errors": [],
           "events": 0, "states": set(), "samples": [], "timeouts": 0, "worker_losses": 0}

    # fixed (exhaustive) part, if the property has one: enumerated cases independent of the budget
    fixed_cases = list(prop.fixed_cases(tier, seed)) if hasattr(prop, "fixed_cases") else []

    ctx = multiprocessing.get_context("fork")
    next_idx = 0
    pending = {}

    def merge(r):
        agg["n"] += r["n"]
        agg["digests"].update(r["digests"])
        agg.setdefault("pairs", []).extend(r.get("pairs", ()))
        agg["nontrivial"].update(r["nontrivial"])
        for k, v in r["counters"].items():
            agg["counters"][k] = agg["counters"].get(k, 0) + v
        agg["violations"].extend(r["violations"])
        agg["errors"].extend(r["errors"])
        agg["events"] += r["events"]
        if len(agg["states"]) < 500000:
            agg["states"].update(r["states"])
        agg["timeouts"] += r["timeouts"]
        if r["sample"] is not None and len(agg["samples"]) < 3:
            agg["samples"].append(r["sample"])

    exhaustive_info = None
    if fixed_cases:
        exhaustive_info = _run_fixed(prop, fixed_cases, workers, ctx, agg, budget, t0)

    stop_submitting = False
    pool = cf.ProcessPoolExecutor(max_workers=workers, mp_context=ctx)
    try:
        while True:
            while not stop_submitting and len(pending) < workers + 2 and next_idx < max_runs:
                hi = min(max_runs, next_idx + chunk)
                try:
                    fut = pool.submit(_chunk, (seed, next_idx, hi, tier))
                except cf.process.BrokenProcessPool:
                    agg["worker_losses"] += 1
                    pool = cf.ProcessPoolExecutor(max_workers=workers, mp_context=ctx)
                    continue
                pending[fut] = (next_idx, hi)
                next_idx = hi
            if not pending:
                break
            done, _ = cf.wait(list(pending), timeout=1.0, return_when=cf.FIRST_COMPLETED)
            for fut in done:
                span = pending.pop(fut)
                try:
                    merge(fut.result())
                except cf.process.BrokenProcessPool:
                    agg["worker_losses"] += 1
                    pool.shutdown(wait=False, cancel_futures=True)
                    pool = cf.ProcessPoolExecutor(max_workers=workers, mp_context=ctx)
                    for f2 in list(pending):
                        pending.pop(f2)
                    break
                except Exception:
                    agg["errors"].append((span[0], "chunk: " + traceback.format_exc()))
            if time.time() - t0 > budget or len(agg["violations"]) >= 20:
                stop_submitting = True
    finally:
        pool.shutdown(wait=True, cancel_futures=True)

    # ---- violations: shrink, match against known findings, replay-validate, report
    known = [k for k in load_known() if k.get("property") == prop.id and k.get("status") == "known"]
    known_ids = {k["id"] for k in known}
    reported = []
    known_hits = {}
    unreplayable = 0
    by_class = {}
    for idx, case, v in sorted(agg["violations"], key=lambda t: t[0] if isinstance(t[0], int) else -1):
        by_class.setdefault(v["class"], []).append((idx, case, v))
    exit_code = 0
    for vclass, items in sorted(by_class.items()):
        new_done = 0
        for idx, case, v in items:
            fid = prop.match_known(case, v) if hasattr(prop, "match_known") else None
            if fid is not None and fid in known_ids:
                known_hits[fid] = known_hits.get(fid, 0) + 1
                continue
            if new_done >= 2:
                continue
            new_done += 1
            slog = {}
            small = shrink(prop, case, vclass, budget_s=float(os.environ.get("VERIF_SHRINK_S", 60)), log=slog)
            out, err = run_case(prop, small)
            if err is not None or not out.get("violation"):
                small, out = case, run_case(prop, case)[0]
            fid = prop.match_known(small, out["violation"]) if (out and out.get("violation") and hasattr(prop, "match_known")) else None
            if fid is not None and fid in known_ids:
                known_hits[fid] = known_hits.get(fid, 0) + 1
                continue
            path = ok = None
            if out and out.get("violation"):
                path = write_replay(prop, seed, idx, small, out["violation"], out["digest"])
                ok = _validate_replay(prop, path, out["violation"]["class"])
            if not ok:
                # The violation was seen in a worker, but the (minimised) case does not show it when executed again here or in a
                # fresh interpreter.  Before blaming the harness, judge the case exactly as generated in a fresh interpreter: a
                # failure that leaves something behind in process-wide state of the library can make every later execution in
                # this process fail, so that shrinking removes the steps that are really needed.
                path0 = write_replay(prop, seed, idx, case, v, None)
                if _validate_replay(prop, path0, v["class"]):
                    print(f"note: run {idx}: minimisation discarded (its result fails only in a process that has executed other cases "
                          f"before, i.e. the failure accumulates in process-wide state); reporting the case as generated")
                    small, out, path, ok = case, {"violation": v, "digest": None}, path0, True
            if not ok:
                # never report it as a violation, never pass silently either (exit 3 below)
                unreplayable += 1
                print(f"HARNESS-NONDETERMINISM: violation of class {vclass} (run {idx}) does not replay in a fresh process: {v.get('detail', '')[:300]}")
                continue
            print(f"violation class={out['violation']['class']} run={idx} shrink_tried={slog.get('shrink_tried')}\n  detail: {out['violation']['detail']}")
            print(f"VIOLATION property={prop.id} replay={path}", flush=True)
            reported.append({"class": vclass, "run": idx, "replay": path})
            exit_code = 1

    # ---- known findings: witnesses
    kf_lines = []
    if hasattr(prop, "witnesses"):
        for fid, wcase in prop.witnesses().items():
            entry = next((k for k in known if k["id"] == fid), None)
            if entry is None:
                continue
            saved_ids, prop.known_ids = prop.known_ids, set()
            try:
                out, err = run_case(prop, wcase)
            finally:
                prop.known_ids = saved_ids
            if err is None and out.get("violation") and prop.match_known(wcase, out["violation"]) == fid:
                line = f"KNOWN-FINDING: property={prop.id} {fid}: {entry.get('what', '')}"
                print(line, flush=True)
                kf_lines.append(line)
            else:
                print(f"note: known finding {fid} no longer reproduces on its witness", flush=True)

    wall = time.time() - t0
    n_err = len(agg["errors"])
    for idx, e in agg["errors"][:3]:
        print(f"HARNESS-ERROR run={idx}: {e}", file=sys.stderr)
    if unreplayable and exit_code == 0:
        print(f"HARNESS-ERROR: {unreplayable} observed violations did not replay", flush=True)
        exit_code = 3
    if n_err > max(2, 0.01 * max(1, agg["n"])) and exit_code == 0:
        print(f"HARNESS-ERROR: {n_err} harness errors in {agg['n']} runs", flush=True)
        exit_code = 3

    counters = dict(sorted(agg["counters"].items()))
    zero_probes = [k for k in getattr(prop, "probes", ()) if counters.get(k, 0) == 0]
    evidence = {
        "property_id": prop.id,
        "tier": tier,
        "seed": seed,
        "level": prop.level,
        "coverage": {
            "evaluations": agg["n"],
            "distinct_nontrivial": len(agg["nontrivial"]),
            "rule": prop.rule,
            "samples": agg["samples"] or [{"note": "no non-trivial sample captured"}],
            "distinct_run_digests": len(agg["digests"]),
            "distinct_memo_states": len(agg["states"]),
            "logical_time_events": agg["events"],
            "runs_fingerprint": hashlib.sha256(repr(sorted(agg.get("pairs", []))).encode()).hexdigest()[:16],
            "runs_fingerprint_note": "sha256 over the sorted (run index, run digest) pairs of the seeded part; equal for equal VERIF_SEED and run count whatever the worker count",
            "runs_per_hour": int(agg["n"] / max(wall, 1e-9) * 3600),
            "seeds_per_hour": int(agg["n"] / max(wall, 1e-9) * 3600),
            "seed_note": "every run index has its own sub-seed sha256(VERIF_SEED/property/run index/purpose); one run = one seed = one exactly repeatable execution",
            "simulated_time_note": "there is no clock in the system under test; simulated time is logical time = number of recorded events (client operations, callback invocations, injected faults, returns)",
            "counters": counters,
            "probes_at_zero": zero_probes,
            "timeouts": agg["timeouts"],
            "worker_losses": agg["worker_losses"],
            "harness_errors": n_err,
            "unreplayable_violations": unreplayable,
            "known_finding_hits": {**known_hits, **{k[6:]: v for k, v in counters.items() if k.startswith("known:")}},
            "known_finding_lines": kf_lines,
            "violations_reported": reported,
            "components_real": getattr(prop, "components_real", []),
            "components_stub": getattr(prop, "components_stub", []),
            "workers": workers,
            "repo_head": boot.repo_head(),
            "pymablock_src": boot.SRC,
        },
        "assumptions": getattr(prop, "assumptions", []),
        "wall_s": round(wall, 2),
        "violations": len(reported),
    }
    if exhaustive_info is not None:
        evidence["coverage"]["exhaustive"] = exhaustive_info.pop("complete")
        evidence["coverage"]["exhaustive_part"] = exhaustive_info
    edir = os.environ.get("VERIF_EVIDENCE_DIR", os.path.join(HERE, "evidence"))
    os.makedirs(edir, exist_ok=True)
    json.dump(evidence, open(os.path.join(edir, f"{prop.id}.json"), "w"), indent=1, default=str)
    print(f"runs={agg['n']} distinct_nontrivial={len(agg['nontrivial'])} digests={len(agg['digests'])} "
          f"states={len(agg['states'])} events={agg['events']} errors={n_err} timeouts={agg['timeouts']} "
          f"known_hits={known_hits} wall={wall:.1f}s exit={exit_code}", flush=True)
    if zero_probes:
        print("probes at zero:", zero_probes)
    faulthandler.cancel_dump_traceback_later()
    return exit_code


def _fixed_chunk(cases):
    prop = _PROP
    res = {"n": 0, "digests": [], "nontrivial": [], "counters": {}, "violations": [], "errors": [],
           "events": 0, "states": [], "sample": None, "timeouts": 0}
    for tag, case in cases:
        out, err = run_case(prop, case)
        res["n"] += 1
        if err is not None:
            res["errors"].append((tag, err))
            if err == "timeout":
                res["timeouts"] += 1
            continue
        res["digests"].append(out["digest"][:16])
        if out.get("nontrivial"):
            res["nontrivial"].append(out["digest"][:16])
        for k, v in out.get("counters", {}).items():
            res["counters"][k] = res["counters"].get(k, 0) + v
        res["events"] += out.get("events", 0)
        if out.get("violation"):
            res["violations"].append((tag, case, out["violation"]))
        if res["sample"] is None and out.get("nontrivial"):
            res["sample"] = {"run": tag, "case": case, "digest": out["digest"][:16], "events": out.get("events", 0)}
    return res


def _run_fixed(prop, fixed_cases, workers, ctx, agg, budget, t0):
    n = len(fixed_cases)
    chunks = [fixed_cases[i:i + 25] for i in range(0, n, 25)]
    done_cases = 0
    with cf.ProcessPoolExecutor(max_workers=workers, mp_context=ctx) as pool:
        futs = [pool.submit(_fixed_chunk, c) for c in chunks]
        for fut in cf.as_completed(futs):
            try:
                r = fut.result()
            except Exception:
                agg["errors"].append(("fixed", traceback.format_exc()))
                continue
            done_cases += r["n"]
            agg["n"] += r["n"]
            agg["digests"].update(r["digests"])
            agg["nontrivial"].update(r["nontrivial"])
            for k, v in r["counters"].items():
                agg["counters"][k] = agg["counters"].get(k, 0) + v
            agg["violations"].extend(r["violations"])
            agg["errors"].extend(r["errors"])
            agg["events"] += r["events"]
            agg["timeouts"] += r["timeouts"]
            if r["sample"] is not None and len(agg["samples"]) < 2:
                agg["samples"].append(r["sample"])
    return {"complete": done_cases == n, "enumerated_cases": n, "completed_cases": done_cases,
            "what": getattr(prop, "fixed_description", "")}


def _validate_replay(prop, path, vclass):
    try:
        p = subprocess.run([os.path.join(HERE, "check"), prop.id, "--replay", path], capture_output=True,
                           text=True, timeout=300)
    except subprocess.TimeoutExpired:
        return vclass == "hang"
    return p.returncode == 1 and f"violation class={vclass}" in p.stdout


def digest_of(events) -> str:
    h = hashlib.sha256()
    for e in events:
        h.update(repr(e).encode())
        h.update(b"\n")
    return h.hexdigest()
