"""Direct, unoptimised reference interpreter of the series mini-language.

Shares nothing with pymablock.algorithm_parsing: own reading of the `with` blocks from the AST
of the algorithm function, own recursion with a memo and a well-foundedness check, no eviction,
no Hermiticity shortcut, no linear-operator twin.  Semantics follow the documentation of
`series_computation`:

* `start = 0` : every block of the zeroth order is absent; `start = 1` : `one` on the diagonal
  blocks of the zeroth order (off-diagonal blocks follow the definition); `start = "X_0"` : zeroth
  order of input X.
* `hermitian` / `antihermitian` : lower blocks are (minus) the adjoint of the transposed upper block.
* clauses are summed; `if diagonal:` applies on diagonal blocks through `diag(value, index)`;
  `if offdiagonal:` applies on off-diagonal blocks and, when `offdiag` is given, through
  `offdiag(value, index)` on diagonal blocks; `if lower:` applies on lower blocks and ends the
  definition there.
* sums skip absent terms, `/` falls back to multiplication by the inverse, `.adj` is the adjoint of
  the transposed block, `f("S")` passes the series and the index, `f(expr)` the value and the index.
* a declared product is the full multivariate Cauchy sum, `one` is the identity, `zero` an absent term.
"""
import ast
import inspect
import itertools

import numpy as np

PEND = object()


class IllFounded(Exception):
    pass


def splittings(n, K):
    if K == 1:
        yield (n,)
        return
    for first in itertools.product(*(range(x + 1) for x in n)):
        rest = tuple(a - b for a, b in zip(n, first))
        for tail in splittings(rest, K - 1):
            yield (first, *tail)


class Handle:
    """What a scope function receives for a series argument."""

    def __init__(self, ref, name):
        self.ref, self.name = ref, name

    def __getitem__(self, index):
        return self.ref.value(self.name, tuple(int(i) for i in index))


class Ref:
    def __init__(self, func, inputs, shape, n_inf, scope, operator, source=None):
        from sympy.physics.quantum import Dagger

        from pymablock.series import one, zero

        self.zero, self.one, self.Dagger = zero, one, Dagger
        self.inputs, self.shape, self.n_inf, self.op = inputs, shape, n_inf, operator
        self.scope = dict(scope)
        self.scope.setdefault("zero", zero)
        self.scope.setdefault("offdiag", None)
        if self.scope.get("diag") is None:
            self.scope["diag"] = lambda x, index: (x[index] if isinstance(x, Handle) else x)
        src = source if source is not None else inspect.getsource(func)
        body = ast.parse(src).body[0].body
        self.series, self.products = {}, {}
        for node in body:
            if not isinstance(node, ast.With):
                continue
            name = node.items[0].context_expr.value
            if "@" in name:
                self.products[name] = name.split(" @ ")
            else:
                self.series[name] = node.body
        self.memo = {}
        self.maxmag = 0.0

    # ---- helpers on values
    def zsum(self, *xs):
        r = self.zero
        for x in xs:
            if x is self.zero:
                continue
            r = x if r is self.zero else self._add(r, x)
        return r

    @staticmethod
    def _add(a, b):
        # implicit mode: a block may be given as a LinearOperator; the sum of an operator and a matrix is an operator
        try:
            from scipy.sparse.linalg import LinearOperator, aslinearoperator
        except ImportError:  # pragma: no cover
            return a + b
        if isinstance(a, LinearOperator) and not isinstance(b, LinearOperator):
            b = aslinearoperator(b)
        elif isinstance(b, LinearOperator) and not isinstance(a, LinearOperator):
            a = aslinearoperator(a)
        return a + b

    def neg(self, x):
        return self.zero if x is self.zero else -x

    def div(self, x, d):
        if x is self.zero:
            return self.zero
        try:
            return x / d
        except TypeError:
            return x * (1 / d)

    def dag(self, x):
        return self.zero if x is self.zero else self.Dagger(x)

    @staticmethod
    def T(index):
        return (index[1], index[0], *index[2:])

    def names(self):
        return list(self.inputs) + list(self.series) + list(self.products)

    # ---- evaluation
    def value(self, name, index):
        key = (name, index)
        if key in self.memo:
            if self.memo[key] is PEND:
                raise IllFounded(f"ill-founded definition at {key}")
            return self.memo[key]
        self.memo[key] = PEND
        try:
            v = self._value(name, index)
        except BaseException:
            del self.memo[key]
            raise
        self.memo[key] = v
        # scale of the floating-point values met so far: a result that is small only through cancellation of much larger
        # intermediates carries rounding errors of their size (used by the float verdict of the caller)
        if isinstance(v, np.ndarray) and v.size and v.dtype != object:
            m = float(np.max(np.abs(v)))
            if m > self.maxmag and np.isfinite(m):
                self.maxmag = m
        return v

    def _value(self, name, index):
        zero, one = self.zero, self.one
        if name in self.inputs:
            return self.inputs[name](index)
        if name in self.products:
            return self.cauchy(self.products[name], index)
        body = self.series[name]
        i, j, *order = index
        start = None
        for st in body:
            if isinstance(st, ast.Assign) and st.targets[0].id == "start":
                start = st.value.value
        if not any(order) and start is not None:
            if start == 0:
                return zero
            if start == 1:
                if i == j:
                    return one
            elif isinstance(start, str):
                if start.endswith("_0") and start[:-2] in self.inputs:
                    return self.value(start[:-2], index)
        result = zero
        for st in body:
            if isinstance(st, ast.Assign):
                continue
            if isinstance(st, ast.Expr) and isinstance(st.value, ast.Name) and st.value.id in ("hermitian", "antihermitian"):
                if i > j:
                    v = self.dag(self.value(name, self.T(index)))
                    if st.value.id == "antihermitian":
                        v = self.neg(v)
                    return self.zsum(result, v)
                continue
            if isinstance(st, ast.Expr):
                result = self.zsum(result, self.E(st.value, index, False))
                continue
            if isinstance(st, ast.If):
                cond = st.test.id
                e = st.body[0].value
                if cond == "diagonal":
                    if i == j:
                        result = self.zsum(result, self.scope["diag"](self.E(e, index, True), index))
                elif cond == "offdiagonal":
                    if i != j:
                        result = self.zsum(result, self.E(e, index, False))
                    elif self.scope["offdiag"] is not None:
                        result = self.zsum(result, self.scope["offdiag"](self.E(e, index, False), index))
                elif cond == "lower":
                    if i > j:
                        return self.zsum(result, self.E(e, index, False))
                else:
                    raise NotImplementedError(cond)
        return result

    def E(self, e, index, diagonal):
        if isinstance(e, ast.Constant):
            return self.value(e.value, index) if isinstance(e.value, str) else e.value
        if isinstance(e, ast.Attribute) and e.attr == "adj":
            return self.dag(self.value(e.value.value, index if diagonal else self.T(index)))
        if isinstance(e, ast.BinOp):
            if isinstance(e.op, ast.Add):
                return self.zsum(self.E(e.left, index, diagonal), self.E(e.right, index, diagonal))
            if isinstance(e.op, ast.Sub):
                return self.zsum(self.E(e.left, index, diagonal), self.neg(self.E(e.right, index, diagonal)))
            if isinstance(e.op, ast.Div):
                return self.div(self.E(e.left, index, diagonal), self.E(e.right, index, diagonal))
            if isinstance(e.op, ast.Mult):
                # "unary and binary operations": a value times an integer literal (an absent value stays absent)
                left, right = self.E(e.left, index, diagonal), self.E(e.right, index, diagonal)
                if left is self.zero or right is self.zero:
                    return self.zero
                return left * right
            raise NotImplementedError(ast.dump(e))
        if isinstance(e, ast.UnaryOp) and isinstance(e.op, ast.UAdd):
            return self.E(e.operand, index, diagonal)
        if isinstance(e, ast.UnaryOp) and isinstance(e.op, ast.USub):
            v = self.E(e.operand, index, diagonal)
            return self.neg(v) if not isinstance(v, (int, float)) else -v
        if isinstance(e, ast.IfExp):
            t = eval(compile(ast.Expression(e.test), "<t>", "eval"), {}, {**self.scope, "index": index})
            return self.E(e.body if t else e.orelse, index, diagonal)
        if isinstance(e, ast.Call):
            f = self.scope[e.func.id]
            args = [Handle(self, a.value) if (isinstance(a, ast.Constant) and isinstance(a.value, str))
                    else self.E(a, index, diagonal) for a in e.args]
            return f(*args, index)
        if isinstance(e, ast.Name):
            return self.scope[e.id]
        raise NotImplementedError(ast.dump(e))

    def cauchy(self, factors, index):
        zero, one = self.zero, self.one
        i, j, *n = index
        K = len(factors)
        result = zero
        for mids in itertools.product(range(self.shape[0]), repeat=K - 1):
            chain = (i, *mids, j)
            for split in splittings(tuple(n), K):
                idxs = [(chain[k], chain[k + 1], *split[k]) for k in range(K)]
                # lowest orders first, so that a recurrent definition (highest order of a factor times an
                # absent zeroth order) is pruned before it is asked for
                got = {}
                ok = True
                for k in sorted(range(K), key=lambda k: (sum(split[k]), k)):
                    v = self.value(factors[k], idxs[k])
                    if v is zero:
                        ok = False
                        break
                    got[k] = v
                if not ok:
                    continue
                vals = [got[k] for k in range(K) if got[k] is not one]
                if not vals:
                    term = one
                else:
                    term = vals[0]
                    for v in vals[1:]:
                        term = self.op(term, v)
                result = term if result is zero else self._add(result, term)
        return result
