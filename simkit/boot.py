"""Process bootstrap: import pymablock from PYMABLOCK_SRC (default /repo), pin nondeterminism."""
import os
import sys

SRC = os.path.realpath(os.environ.get("PYMABLOCK_SRC", "/repo"))
HERE = os.path.dirname(os.path.dirname(os.path.abspath(__file__)))


def boot():
    if sys.path[0] != SRC:
        sys.path.insert(0, SRC)
    import pymablock  # noqa

    where = os.path.realpath(pymablock.__file__)
    if not where.startswith(SRC + os.sep):
        raise SystemExit(f"pymablock imported from {where}, expected under {SRC}")
    import pymablock.series as ps

    # seam: names of series are random in production (secrets.token_hex); counter here
    counter = [0]

    def token_hex(n=4):
        counter[0] += 1
        return f"{counter[0]:0{2 * n}x}"[-2 * n:]

    ps.token_hex = token_hex
    return pymablock


def repo_head():
    import subprocess

    try:
        return subprocess.run(
            ["git", "-C", SRC, "rev-parse", "--short", "HEAD"], capture_output=True, text=True, timeout=10
        ).stdout.strip()
    except Exception:
        return "unknown"
