"""Read-only walk over the BlockSeries reachable from some roots (closures, generated evals)."""
import functools
import types


def walk(roots):
    """Return {id: BlockSeries} for every series reachable from roots."""
    from pymablock.series import BlockSeries

    seen = {}
    seen_f = set()
    stack = list(roots)
    while stack:
        obj = stack.pop()
        if isinstance(obj, BlockSeries):
            if id(obj) in seen:
                continue
            seen[id(obj)] = obj
            stack.append(obj.eval)
        elif isinstance(obj, types.FunctionType):
            if id(obj) in seen_f:
                continue
            seen_f.add(id(obj))
            g = obj.__globals__
            if "del_" in g and isinstance(g.get("series"), dict):
                stack.extend(g["series"].values())
                los = g.get("linear_operator_series")
                if isinstance(los, dict):
                    stack.extend(los.values())
                fn = g.get("del_")
                if isinstance(fn, types.FunctionType):
                    stack.append(fn)
            for cell in obj.__closure__ or ():
                try:
                    stack.append(cell.cell_contents)
                except ValueError:
                    pass
        elif isinstance(obj, types.MethodType):
            stack.append(obj.__func__)
            stack.append(obj.__self__)
        elif isinstance(obj, functools.partial):
            stack.append(obj.func)
            stack.extend(obj.args)
        elif isinstance(obj, dict):
            if len(obj) <= 64:
                for v in obj.values():
                    if isinstance(v, (BlockSeries, types.FunctionType, tuple, list)):
                        stack.append(v)
        elif isinstance(obj, (tuple, list)):
            if len(obj) <= 64:
                for v in obj:
                    if isinstance(v, (BlockSeries, types.FunctionType, dict, tuple, list)):
                        stack.append(v)
    return seen


def pending_entries(series_map):
    from pymablock.series import PENDING

    out = []
    for s in series_map.values():
        for k, v in list(s._data.items()):
            if v is PENDING:
                out.append((s.name, k))
    return out
