"""One integer decides everything: sub-seeds are sha256(seed/prop/run/purpose)."""
import hashlib
import random


def subseed(*parts) -> int:
    h = hashlib.sha256("/".join(str(p) for p in parts).encode()).digest()
    return int.from_bytes(h[:8], "big")


def rnd(*parts) -> random.Random:
    return random.Random(subseed(*parts))


def nprng(*parts):
    import numpy as np

    return np.random.default_rng(subseed(*parts))
