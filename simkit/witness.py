"""Fixed demonstrations of the recorded known findings (known_findings.json, status `known`).

Each function runs the unmodified library on one specific, legal input and returns a violation dictionary while the
defect is present, None once it is gone.  They are executed through the ordinary case machinery (a case of the form
{"witness": <finding id>}), so the KNOWN-FINDING line of a check is printed from a real execution, never from the file.
"""
import numpy as np


def _v(fid, detail):
    return {"class": "known-witness", "detail": detail, "info": {"finding": fid}}


def c19_packed_view_siblings():
    """A list/slice view evaluates every selected element of an order to serve one of them."""
    from pymablock.series import BlockSeries

    def make(view_index):
        def ev(i, k):
            if i == 1:
                return ("copy", view[0, k])  # element (1, k) is defined as element (0, k): no cycle
            return ("a", int(k))

        s = BlockSeries(eval=ev, shape=(2,), n_infinite=1)
        view = s[view_index]
        return s

    try:
        got = make([0, 1])[1, 2]
    except RuntimeError as e:
        return _v("C19/packed-view-evaluates-siblings",
                  f"s[1, k] := s[[0, 1]][0, k] is well-founded, yet s[1, 2] raised RuntimeError ({e}): the view evaluates s[1, 2] "
                  "(in flight) although only s[0, 2] is selected")
    return None if got == ("copy", ("a", 2)) else _v("C19/packed-view-evaluates-siblings", f"unexpected value {got!r}")


def c18_one_plus_term():
    """`one` is the identity inside a single product only: identity + another term raises."""
    from pymablock.series import BlockSeries, cauchy_dot_product, one

    X, Y = np.arange(6.0).reshape(2, 3), np.arange(6.0).reshape(3, 2)
    A = BlockSeries(data={(0, 0, 0): one, (1, 1, 0): one, (0, 1, 0): X}, shape=(2, 2), n_infinite=1)
    B = BlockSeries(data={(0, 0, 0): one, (1, 1, 0): one, (1, 0, 0): Y}, shape=(2, 2), n_infinite=1)
    try:
        got = cauchy_dot_product(A, B)[0, 0, 0]
    except TypeError as e:
        return _v("C18/one-plus-term", f"(A·B)[0,0,0] = 1·1 + X@Y raised TypeError ({e})")
    return None if np.allclose(got, np.eye(2) + X @ Y) else _v("C18/one-plus-term", f"unexpected value {got!r}")


def c09_linear_operator_plain_product():
    """Implicit layout (last diagonal block flagged): a plain declared product mixes arrays and operators."""
    from pymablock import algorithms
    from pymablock.algorithm_parsing import series_computation
    from pymablock.block_diagonalization import solve_sylvester_diagonal
    from pymablock.series import BlockSeries, zero

    rg = np.random.default_rng(5)
    e = np.array([0.0, 1.0, 3.0, 4.5])
    V = rg.normal(size=(4, 4))
    V = V + V.T
    blocks = {(0, 0, 0): np.diag(e[:2]), (1, 1, 0): np.diag(e[2:])}
    for i in range(2):
        for j in range(2):
            blocks[(i, j, 1)] = V[2 * i:2 * i + 2, 2 * j:2 * j + 2]
    H = BlockSeries(eval=lambda *index: blocks.get(tuple(int(k) for k in index), zero), shape=(2, 2), n_infinite=1)
    mask = np.zeros((2, 2), dtype=bool)
    mask[-1, -1] = True
    scope = {"solve_sylvester": solve_sylvester_diagonal((e[:2], e[2:])), "two_block_optimized": True,
             "commuting_blocks": [True, True], "use_linear_operator": mask}
    series, _ = series_computation({"H": H}, algorithm=algorithms.main, scope=scope)
    try:
        series["U'† @ U'"][1, 1, 4]
    except TypeError as err:
        return _v("C09/linear-operator-mode-plain-product",
                  f"series[\"U'† @ U'\"][1, 1, 4] of the shipped Hermitian algorithm with the implicit layout raised TypeError ({err})")
    return None


def c10_sparse_duplicates_canonicalised():
    """A later request rewrites the caller's CSR buffers (duplicate entries are summed in place by count_nonzero)."""
    from pymablock import block_diagonalize
    from scipy import sparse

    def dup(dense):
        rows, cols = np.nonzero(dense)
        vals = dense[rows, cols] / 2
        rows, cols, vals = (np.concatenate([x, x]) for x in (rows, cols, vals))
        order = np.argsort(rows, kind="stable")
        data, indices = vals[order].copy(), cols[order].astype(np.int32)
        indptr = np.concatenate([[0], np.cumsum(np.bincount(rows, minlength=dense.shape[0]))]).astype(np.int32)
        return sparse.csr_array((data, indices, indptr), shape=dense.shape), (data, indices, indptr)

    h0 = [[sparse.csr_array(np.diag([0.0, 1.0])), 0], [0, sparse.csr_array(np.diag([3.0, 4.0]))]]
    p = np.array([[0.0, 1.0, 2.0, 3.0], [1.0, 0.5, 4.0, 5.0], [2.0, 4.0, 0.0, 6.0], [3.0, 5.0, 6.0, 1.0]])
    (p00, buf), (p01, _), (p10, _), (p11, _) = (dup(b) for b in (p[:2, :2], p[:2, 2:], p[2:, :2], p[2:, 2:]))
    before = [b.copy() for b in buf]
    out = block_diagonalize([h0, [[p00, p01], [p10, p11]]])
    if not all(np.array_equal(a, b) for a, b in zip(before, buf)):
        return _v("C10/sparse-duplicates-canonicalised-in-place", "the caller's CSR buffers changed at definition already")
    out[0][0, 0, 1]
    if all(np.array_equal(a, b) for a, b in zip(before, buf)):
        return None
    return _v("C10/sparse-duplicates-canonicalised-in-place",
              f"requesting H_tilde[0, 0, 1] rewrote the caller's CSR buffers of a perturbation block (indptr {before[2].tolist()} -> {buf[2].tolist()})")


def c19_view_aliases_callers_list():
    """A list/slice view keeps the caller's index list alive: mutating the list afterwards changes the view."""
    from pymablock.series import BlockSeries

    s = BlockSeries(eval=lambda i, j, k: (int(i), int(j), int(k)), shape=(3, 2), n_infinite=1)
    rows = [0, 1]
    view = s[rows, 0]
    rows[0] = 2  # the caller re-uses its list for something else
    got = view[0, 2]
    if got == (0, 0, 2):
        return None
    return _v("C19/view-aliases-callers-index-list",
              f"view = s[rows, 0] with rows = [0, 1]; after rows[0] = 2 the view's element [0, 2] is s{list(got)} instead of s[0, 0, 2] "
              "(numpy copies index lists when indexing)")


def c11_marker_forged_by_deepcopy():
    """A deep copy taken from inside an evaluation holds a copy of the in-flight marker and hands it out as a value."""
    import copy

    from pymablock.series import BlockSeries

    snap = {}

    def ev(k):
        if k == 2 and "s" not in snap:
            snap["s"] = copy.deepcopy(series)  # a callback that takes a snapshot of the series it is asked to evaluate
        return ("value", int(k))

    series = BlockSeries(eval=ev, shape=(), n_infinite=1)
    series[2]
    try:
        got = snap["s"][2]
    except RuntimeError:
        return None  # an error, not a value: the marker is at least not handed out
    if got == ("value", 2):
        return None
    return _v("C11/in-flight-marker-forged-by-deepcopy",
              f"the snapshot taken while element 2 was being evaluated returns {got!r} for that element (the copied in-flight marker), without evaluating anything")


WITNESSES = {
    "C11/in-flight-marker-forged-by-deepcopy": c11_marker_forged_by_deepcopy,
    "C19/view-aliases-callers-index-list": c19_view_aliases_callers_list,
    "C19/packed-view-evaluates-siblings": c19_packed_view_siblings,
    "C18/one-plus-term": c18_one_plus_term,
    "C09/linear-operator-mode-plain-product": c09_linear_operator_plain_product,
    "C10/sparse-duplicates-canonicalised-in-place": c10_sparse_duplicates_canonicalised,
}


def run(fid):
    from simkit import batch

    v = WITNESSES[fid]()
    return {"violation": v, "digest": batch.digest_of([("witness", fid, bool(v))]), "events": 1, "nontrivial": False,
            "counters": {}, "states": []}
