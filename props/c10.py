"""C10: results independent of evaluation order/history; returned values and inputs not mutated."""
from props.graph import GraphProp


class Prop(GraphProp):
    id = "C10"
    level = "exploration"
    check_cone = False
    check_mutation = True
    final_sweep = "sample"
    single_fresh = 2
    tiers = {"quick": {"runs": 6000, "budget_s": 45, "chunk": 8},
             "thorough": {"runs": 400000, "budget_s": 900, "chunk": 16}}
    rule = ("case = seeded world (mode, value domain dense/sparse/symbolic, 1-4 blocks, 1-3 parameters, term pattern, input "
            "format, 1-3 computations sharing the caller's input objects, optional chained computation, optional derived "
            "client Cauchy products) + seeded request schedule (scalar/slice/list/view/repeat/contains, 8-40 operations; "
            "thorough up to 120) without faults; every outcome is compared with a freshly built undisturbed computation. "
            "non-trivial = at least 3 value-returning requests, at least 2 operation kinds, and a slice/view operation or "
            "an observed recompute-after-eviction; distinct = distinct sha256 of the event log")
    probes = ["fmt_implicit", "kpm_world", "linop_twin_requested", "internal_requested", "recompute_after_eviction", "eviction_observed", "op_view_create", "op_on_view", "op_array",
              "single_fresh_checked", "multi_comp_world", "chain_world", "illposed_world", "illposed_raise", "domain_sparse", "domain_sym",
              "fmt_scalar_idx", "fmt_scalar_vecs", "fmt_dict", "fmt_list", "fmt_nested", "fmt_symkeys", "fmt_sympy_expr", "domain_tracer", "domain_sq", "final_checked"]
    assumptions = ["oracle: a fresh computation of the same world in the same process, walked in ascending order",
                   "float verdicts use |a-b| <= 1e-9(1+max|a|); bit-different-but-close results are counted, not alarmed",
                   "bounds: total order <= 4 (1 parameter), 3 (2), 2 (3); <= 4 blocks of size <= 3"]

    profile = {}

    def generate(self, r, tier, idx):
        profile = self.profile
        if r.random() < 0.06:
            # focus: sparse worlds whose terms mix dense and sparse arrays, with full / selective diagonalisation
            profile = {**self.profile, "domains": ["sparse"], "force_mixed_fd": True}
        w = self.gen_world(r, tier, profile)
        ops = self.gen_ops(r, w, tier, self.profile)
        return {"world": w, "ops": ops, "faults": []}


PROP = Prop()
