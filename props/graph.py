"""sim-graph engine (C10, C11, C12): seeded request schedules and callback faults against
block_diagonalize computations; fresh-computation oracle; PENDING scan; Hamiltonian call log.
"""
import contextlib
import itertools

import numpy as np

from simkit import batch, graphwalk
from simkit.batch import dd_list
from simkit.values import T, TracerOverflow, W, fingerprint, norm, same

BOX = {1: 4, 2: 2, 3: 1}  # per-axis maximal order covered by the oracle table
SERIES = ("H_tilde", "U", "U_inv")
DERIVED = ("d0", "d1", "d2")


class SimFault(Exception):
    """Injected callback failure (plain Exception subclass)."""


class Poisoned(Exception):
    """Raised by a Hamiltonian term outside the dependency cone (C12 poisoned twin)."""


class SimBaseFault(BaseException):
    """Injected failure that is not an Exception (stands for timeouts/cancellations derived from BaseException)."""


class ExoticRuntimeError(RuntimeError):
    """RuntimeError subclass whose constructor needs three arguments (like scipy's ArpackNoConvergence)."""

    def __init__(self, msg, eigenvalues, eigenvectors):
        super().__init__(msg)
        self.eigenvalues, self.eigenvectors = eigenvalues, eigenvectors


class ExoticError(Exception):
    """Exception subclass with a keyword-only constructor."""

    def __init__(self, *, message):
        super().__init__(message)


FAULT_KINDS = {"SimFault": SimFault, "ValueError": ValueError, "RuntimeError": RuntimeError,
               "MemoryError": MemoryError, "KeyboardInterrupt": KeyboardInterrupt, "SimBaseFault": SimBaseFault,
               "SystemExit": SystemExit,
               # exception types that double as control-flow signals somewhere in Python or numpy
               "KeyError": KeyError, "StopIteration": StopIteration, "IndexError": IndexError, "AttributeError": AttributeError,
               "TypeError": TypeError, "ZeroDivisionError": ZeroDivisionError, "AssertionError": AssertionError,
               "OSError": OSError, "LookupError": LookupError, "NotImplementedError": NotImplementedError,
               "RecursionError": RecursionError, "GeneratorExit": GeneratorExit,
               "ExoticRuntimeError": ExoticRuntimeError, "ExoticError": ExoticError}


def raw_fingerprint(v):
    """Fingerprint of a caller-owned object including its raw buffers (a compaction of a sparse structure or a changed
    dtype is a modification even if the dense content is the same)."""
    import hashlib

    from scipy import sparse

    h = hashlib.sha256()
    if sparse.issparse(v):
        h.update(v.format.encode())
        for name in ("data", "indices", "indptr", "row", "col", "offsets"):
            a = getattr(v, name, None)
            if a is not None:
                a = np.ascontiguousarray(a)
                h.update(name.encode() + str(a.dtype).encode() + str(a.shape).encode() + a.tobytes())
        return h.hexdigest()[:16]
    if isinstance(v, np.ndarray) and v.dtype != object:
        a = np.ascontiguousarray(v)
        h.update(str(a.dtype).encode() + str(a.shape).encode() + a.tobytes())
        return h.hexdigest()[:16]
    return fingerprint(norm(v))


def leq(m, n):
    return all(a <= b for a, b in zip(m, n))


def to_py(item):
    out = []
    for c in item:
        if isinstance(c, dict):
            out.append(list(c["l"]) if "l" in c else slice(*c["s"]))
        else:
            out.append(c)
    return tuple(out)


# =========================================================================================
# environment: everything behind the seams


class Env:
    def __init__(self, faults=(), poison=None, active=True, alter=None):
        self.active = active
        self.alter = alter  # {"cone": [n, ...], "factor": f}: the caller's terms outside the cone are scaled by f in this world
        self.plan = {}
        for f in faults:
            self.plan.setdefault(f["op"], []).append(f)
        self.poison = poison  # list of orders n: H terms with order not <= some n raise Poisoned
        self.poison_touched = []
        self.events = []
        self.op = None
        self.ticks = 0
        self.fired = []
        self.sticky = {}
        self.h_calls = []  # (key, order) of every Hamiltonian callback invocation
        self.h_ok = {}  # key -> number of successful evaluations
        self.counts = {}
        self.nfault = 0
        self.on_fault = None
        self.faults_enabled = True
        self.op_ticks = {}
        self.seam_violations = []

    def begin(self, opi):
        self.op = opi
        self.ticks = 0
        self.fired = []
        self.h_mark = len(self.h_calls)

    def end(self):
        self.op_ticks[self.op] = self.ticks
        self.op = None

    def tick(self, kind, key):
        if not self.active:
            return
        k = self.ticks
        self.ticks += 1
        self.counts["cb_" + kind] = self.counts.get("cb_" + kind, 0) + 1
        self.events.append(("cb", kind, key))
        if not self.faults_enabled:
            return
        site = (kind, key)
        fault = None
        if site in self.sticky:
            rem, fkind = self.sticky[site]
            if rem <= 1:
                del self.sticky[site]
            else:
                self.sticky[site] = (rem - 1, fkind)
            fault = {"kind": fkind, "persist": 1, "sticky_hit": True}
        else:
            for f in self.plan.get(self.op, ()):
                if f["k"] == k:
                    fault = f
                    break
        if fault is None:
            return
        self.nfault += 1
        msg = f"injected fault #{self.nfault} at {kind}{key}"
        if fault["kind"] == "ExoticRuntimeError":
            exc = ExoticRuntimeError(msg, [], [])
        elif fault["kind"] == "ExoticError":
            exc = ExoticError(message=msg)
        else:
            exc = FAULT_KINDS[fault["kind"]](msg)
        self.fired.append(exc)
        self.events.append(("fault", fault["kind"], bool(fault.get("sticky_hit"))))
        self.counts["fault_" + fault["kind"]] = self.counts.get("fault_" + fault["kind"], 0) + 1
        self.counts["fault_site_" + kind] = self.counts.get("fault_site_" + kind, 0) + 1
        if fault.get("sticky_hit"):
            self.counts["fault_sticky_rehit"] = self.counts.get("fault_sticky_rehit", 0) + 1
        if fault.get("persist", 1) > 1 and not fault.get("sticky_hit"):
            self.sticky[site] = (fault["persist"] - 1, fault["kind"])
        if self.on_fault is not None:
            self.on_fault()
        raise exc

    # -- the three callbacks
    def h_call(self, key, order, produce):
        if self.active:
            self.h_calls.append((key, order))
            if self.poison is not None and not any(leq(order, n) for n in self.poison):
                self.poison_touched.append((key, order))
                raise Poisoned(f"Hamiltonian term {key} is outside the dependency cone")
        self.tick("H", key)
        value = produce()
        if self.active:
            self.h_ok[key] = self.h_ok.get(key, 0) + 1
        return value

    def mm(self, a, b):
        self.tick("M", None)
        return a @ b

    def mul(self, a, b):
        self.tick("M", None)
        return a * b


@contextlib.contextmanager
def seams(env):
    """Install the module-attribute seams of pymablock.block_diagonalization for one call."""
    import pymablock.block_diagonalization as bd

    import scipy.sparse.linalg as sla

    import pymablock.second_quantization as sq

    saved = (bd.solve_sylvester_diagonal, bd.matmul, bd.mul, bd.solve_sylvester_direct, bd.solve_sylvester_KPM, sla.eigsh)
    saved_sq = sq.solve_sylvester_2nd_quant

    def wrap(orig):
        def factory(*a, **k):
            inner = orig(*a, **k)
            rejected = set()  # block pairs for which this solver raised the shared-eigenvalue error

            def solve_sylvester(Y, index):
                env.tick("S", tuple(int(i) for i in index))
                pair = (int(index[0]), int(index[1]))
                try:
                    result = inner(Y, index)
                except ValueError as e:
                    if "share eigenvalues" in str(e):
                        rejected.add(pair)
                    raise
                if pair in rejected and not (Y is env_zero()):
                    env.seam_violations.append(f"the Sylvester solver rejected block pair {pair} (shared eigenvalues) and later accepted a non-zero right-hand side for the same pair")
                return result

            return solve_sylvester

        return factory

    def env_zero():
        from pymablock.series import zero

        return zero

    eigsh = sla.eigsh

    def seeded_eigsh(A, *a, **k):
        # the ARPACK start vector is the library's only result-affecting randomness (kpm.rescale)
        if k.get("v0") is None:
            k["v0"] = np.random.default_rng(20240925).normal(size=A.shape[0])
        k.pop("rng", None)
        return eigsh(A, *a, **k)

    bd.solve_sylvester_diagonal = wrap(saved[0])
    bd.solve_sylvester_direct = wrap(saved[3])
    bd.solve_sylvester_KPM = wrap(saved[4])
    sq.solve_sylvester_2nd_quant = wrap(saved_sq)
    bd.matmul = env.mm
    bd.mul = env.mul
    sla.eigsh = seeded_eigsh
    try:
        yield
    finally:
        (bd.solve_sylvester_diagonal, bd.matmul, bd.mul, bd.solve_sylvester_direct, bd.solve_sylvester_KPM, sla.eigsh) = saved
        sq.solve_sylvester_2nd_quant = saved_sq


def scipy_shim():
    """SciPy 1.18 refuses a LinearOperator subclass whose base __init__ was not called; ComplementProjector
    does not call it.  Harness-only shim for implicit-mode worlds: a no-op where the class initialises its base."""
    import pymablock.linalg as pl
    from scipy.sparse.linalg import LinearOperator

    if getattr(pl.ComplementProjector, "_verif_shim", False):
        return
    orig = pl.ComplementProjector.__init__

    def init(self, *a, **k):
        orig(self, *a, **k)
        if not hasattr(self, "_xp"):
            LinearOperator.__init__(self, self.dtype, self.shape)

    pl.ComplementProjector.__init__ = init
    pl.ComplementProjector._verif_shim = True


def unrelated_computation(nb, seed, kind):
    """Another, unrelated block diagonalisation in the same process (same number of blocks, its own inputs): defined and
    asked for a few elements between the operations of a world.  Nothing of it is compared; what the world's own
    computations return afterwards must not depend on it."""
    import warnings

    from pymablock import block_diagonalize
    from scipy import sparse

    rg = np.random.default_rng(seed)
    with warnings.catch_warnings():
        warnings.simplefilter("ignore")
        if kind == "implicit":
            if nb < 2:
                return
            scipy_shim()
            N = nb + 2
            e = 1.5 * np.arange(N) + rg.uniform(0, 0.3, size=N)
            V = rg.normal(size=(N, N))
            V = V + V.T
            vecs = [np.eye(N)[:, [k]] for k in range(nb - 1)]
            out = block_diagonalize([sparse.diags(e).tocsr(), sparse.csr_array(V)], subspace_eigenvectors=vecs)
            out[0][0, 0, 2]
            out[0][nb - 1, nb - 1, 1]
            out[1][0, nb - 1, 1]
        else:
            N = 2 * nb
            e = 1.5 * np.arange(N) + rg.uniform(0, 0.3, size=N)
            V = rg.normal(size=(N, N)) + 1j * rg.normal(size=(N, N))
            V = V + V.conj().T
            out = block_diagonalize([np.diag(e), V], subspace_indices=np.repeat(np.arange(nb), 2),
                                    fully_diagonalize=tuple(range(nb)) if kind == "explicit_fd" else ())
            out[0][0, 0, 2]
            out[1][0, nb - 1, 2]


# =========================================================================================
# worlds


class Inputs:
    """Caller-owned input objects of a world, generated from world['vseed']."""

    def __init__(self, w, alter=None):
        from pymablock.series import zero

        self.w = w
        self.zero = zero
        rg = np.random.default_rng(w["vseed"])
        sizes = w["sizes"]
        nb = len(sizes)
        self.nb, self.N = nb, sum(sizes)
        self.offs = np.concatenate([[0], np.cumsum(sizes)]).astype(int)
        self.idx = np.repeat(np.arange(nb), sizes)
        self.npert = w["npert"]
        self.zero_o = (0,) * self.npert
        N = self.N
        self.sym = w["domain"] == "sym"
        # which blocks of which term are structurally absent
        self.absent = set()
        for o in map(tuple, w["terms"]):
            for i in range(nb):
                for j in range(i, nb):
                    if rg.random() < w.get("p_zero_block", 0.0):
                        self.absent.add((i, j, o))
                        self.absent.add((j, i, o))
        if w["domain"] == "sq":
            # second-quantised: two spin blocks with boson operators inside (1x1 sympy matrices), rational coefficients
            import sympy
            from sympy.physics.quantum import Dagger
            from sympy.physics.quantum.boson import BosonOp

            a, b = BosonOp("a"), BosonOp("b")
            if w.get("sq_stat") == "fermion":
                from sympy.physics.quantum.fermion import FermionOp

                a = FermionOp("c")  # first mode fermionic (second, if any, stays bosonic)
            two = w.get("sq_modes", 1) == 2
            num = Dagger(a) * a
            numb = Dagger(b) * b
            Rq = lambda lo, hi: sympy.Rational(int(rg.integers(lo, hi)), int(rg.integers(2, 6)))  # noqa: E731
            omega, delta = 1 + Rq(0, 4), Rq(1, 5) / 3
            omegab = omega + sympy.Rational(7, 11)  # incommensurate with omega: no accidental resonance at low order
            h0 = omega * num + (omegab * numb if two else 0)
            self.e = None
            self.full = {}
            self.blocks = {(0, 0, *self.zero_o): sympy.Matrix([[h0 - delta]]),
                           (1, 1, *self.zero_o): sympy.Matrix([[h0 + delta]])}
            if w.get("sq_two_level"):
                # two states per block; the terms of different parameters couple different pairs of states
                e1, e2 = sympy.Rational(1, 7), sympy.Rational(1, 5)
                self.blocks = {(0, 0, *self.zero_o): sympy.Matrix([[h0 - delta - e1, 0], [0, h0 - delta + e1]]),
                               (1, 1, *self.zero_o): sympy.Matrix([[h0 + delta - e2, 0], [0, h0 + delta + e2]])}
                for n_, o in enumerate(map(tuple, w["terms"])):
                    g = Rq(1, 5)
                    pattern = [[a, 0], [0, a]] if n_ % 2 == 0 else [[0, a], [a, 0]]
                    if sum(o) > 1:
                        pattern = [[a, a], [0, 0]]
                    M = g * sympy.Matrix(pattern)
                    self.blocks[(0, 1, *o)] = M
                    self.blocks[(1, 0, *o)] = Dagger(M)
            for o in map(tuple, w["terms"] if not w.get("sq_two_level") else []):
                kind = int(rg.integers(0, 6 if two else 4))
                if w.get("sq_same_drive"):
                    kind = 6
                g, k = Rq(1, 5), Rq(1, 5)
                if kind == 6:
                    # the same drive on both blocks (identical matrices) next to the coupling
                    self.blocks[(0, 0, *o)] = sympy.Matrix([[k * (a + Dagger(a))]])
                    self.blocks[(1, 1, *o)] = sympy.Matrix([[k * (a + Dagger(a))]])
                    self.blocks[(0, 1, *o)] = sympy.Matrix([[g * a]])
                    self.blocks[(1, 0, *o)] = sympy.Matrix([[g * Dagger(a)]])
                if kind in (0, 1, 3):
                    self.blocks[(0, 1, *o)] = sympy.Matrix([[g * a]])
                    self.blocks[(1, 0, *o)] = sympy.Matrix([[g * Dagger(a)]])
                if kind in (1, 2):
                    self.blocks[(int(rg.integers(0, 2)),) * 2 + o] = sympy.Matrix([[k * (a + Dagger(a))]])
                if kind == 3:
                    self.blocks[(0, 0, *o)] = sympy.Matrix([[k * num * num]])
                if kind == 4:
                    self.blocks[(0, 1, *o)] = sympy.Matrix([[g * b]])
                    self.blocks[(1, 0, *o)] = sympy.Matrix([[g * Dagger(b)]])
                    self.blocks[(1, 1, *o)] = sympy.Matrix([[k * (b + Dagger(b))]])
                if kind == 5:
                    self.blocks[(0, 0, *o)] = sympy.Matrix([[k * (Dagger(a) * b + Dagger(b) * a)]])
                    self.blocks[(0, 1, *o)] = sympy.Matrix([[g * a]])
                    self.blocks[(1, 0, *o)] = sympy.Matrix([[g * Dagger(a)]])
            # operator-valued elimination masks (dict form of fully_diagonalize)
            self.sq_masks = {"a": sympy.Matrix([[a + Dagger(a)]]), "ab": sympy.Matrix([[a + Dagger(a) + b + Dagger(b)]]),
                             "a2only": sympy.Matrix([[a**2 + Dagger(a)**2]]),
                             "a2": sympy.Matrix([[a + Dagger(a) + a**2 + Dagger(a)**2]])}
            self.vecs = None
            self.masks = {}
            self.tracer = False
            self.sym = True
            if w["fmt"] != "blocked":
                # the same problem handed over as full operator-valued matrices plus subspace_indices
                sz = sizes
                orders_present = sorted({k[2:] for k in self.blocks})
                for o in orders_present:
                    M = sympy.zeros(N, N)
                    for (i, j, *oo), B in self.blocks.items():
                        if tuple(oo) == o:
                            M[int(self.offs[i]):int(self.offs[i]) + sz[i], int(self.offs[j]):int(self.offs[j]) + sz[j]] = B
                    self.full[o] = M
            return
        self.tracer = w["domain"] == "tracer"
        if self.tracer:
            # exact, provenance-carrying values of a free *-algebra; one scalar element per block
            herm = w["herm"]
            self.e = None
            self.full = {}
            self.blocks = {}
            for o in [self.zero_o] + [tuple(t) for t in w["terms"]]:
                for i in range(nb):
                    for j in range(nb):
                        if herm and i > j:
                            continue
                        key = (i, j, *o)
                        if o == self.zero_o:
                            if i != j:
                                continue
                            g = T.gen(f"h0_{i}")
                            self.blocks[key] = g + g.adjoint() if herm else g
                        elif (i, j, o) in self.absent:
                            continue
                        else:
                            g = T.gen(f"H{list(key)}")
                            self.blocks[key] = g + g.adjoint() if (herm and i == j) else g
                        if herm and i < j:
                            self.blocks[(j, i, *o)] = self.blocks[key].adjoint()
            self.vecs = None
            self.masks = {}
            return
        if w.get("sectors") and nb >= 3:
            # decoupled symmetry sectors {0, 1} and {2, ...}: no term couples them, and they share an eigenvalue
            for o in map(tuple, w["terms"]):
                for i in range(nb):
                    for j in range(nb):
                        if (i < 2) != (j < 2):
                            self.absent.add((i, j, o))
        if self.sym:
            import sympy

            e = []
            for b, s in enumerate(sizes):
                ks = sorted(rg.choice(np.arange(1, 9), size=s, replace=False).tolist())
                e += [sympy.Rational(12 * b + k, 4) for k in ks]
            if w.get("deg") and sizes[0] >= 2:
                e[1] = e[0]
            if w.get("illposed") and nb >= 2:
                e[int(self.offs[w["illposed"]])] = e[0]
            self.e = e
            self.full = {self.zero_o: sympy.diag(*e)}
            for o in map(tuple, w["terms"]):
                re = rg.integers(-3, 4, size=(N, N))
                im = rg.integers(-2, 3, size=(N, N)) if not w.get("real") else np.zeros((N, N), dtype=int)
                A = sympy.Matrix(N, N, lambda a, b: sympy.Rational(int(re[a, b]), 2) + sympy.I * sympy.Rational(int(im[a, b]), 3))
                if w["herm"]:
                    A = A + A.H
                A = self._zero_blocks(A, o)
                if A.is_zero_matrix and w["fmt"] == "sympy_expr":
                    A[0, 0] = 1  # a vanishing term would remove its symbol from the expression
                if alter is not None and not any(leq(o, n) for n in alter["cone"]):
                    # altered twin (C12): a term outside the protected cone is something else entirely - in a Hermitian-mode world
                    # given as one expression or with monomial keys even a term that is not Hermitian (nobody inside the cone looks)
                    A = A * 7
                    if alter.get("nonherm") and N >= 2:
                        A[0, N - 1] = A[0, N - 1] + 1 + sympy.I
                self.full[o] = A
        else:
            e = np.concatenate([2.5 * b + np.sort(rg.uniform(0, 1, size=s)) for b, s in enumerate(sizes)])
            if w.get("deg") and sizes[0] >= 2:
                e[1] = e[0]
            if w.get("illposed") and nb >= 2:
                e[int(self.offs[w["illposed"]])] = e[0]
            if w.get("sectors") and nb >= 3:
                e[int(self.offs[2])] = e[0]
            if w.get("zero_level") and nb >= 2:
                e[: int(self.offs[1])] = 0.0  # the whole first block sits at zero energy: its H_0 block vanishes identically
            if not w["herm"] and w.get("complex_e"):
                e = e + 1j * rg.uniform(-0.3, 0.3, size=N)
            self.e = e
            real = bool(w.get("real"))
            h0 = np.diag(e) if (real and not np.iscomplexobj(e)) else np.diag(e).astype(complex)
            self.full = {self.zero_o: h0}
            for o in map(tuple, w["terms"]):
                A = rg.normal(size=(N, N))
                if not real:
                    A = A + 1j * rg.normal(size=(N, N))
                if w["herm"]:
                    A = A + A.conj().T
                A = self._zero_blocks(A, o)
                if w["domain"] == "sparse" and w.get("p_sparse"):
                    # different terms get different sparsity patterns (often with the same number of stored entries)
                    keep = rg.random((N, N)) < 1.0 - w["p_sparse"]
                    if w["herm"]:
                        keep = np.triu(keep) | np.triu(keep, 1).T
                    A = np.where(keep, A, 0)
                if w.get("term_scale"):
                    A = A * w["term_scale"][list(map(tuple, w["terms"])).index(o)]  # terms of very different magnitude
                if alter is not None and not any(leq(o, n) for n in alter["cone"]):
                    A = A * alter["factor"]  # altered twin (C12): a term outside the protected cone is something else entirely
                self.full[o] = A
            if w["domain"] == "sparse":
                from scipy import sparse

                def to_csr(v):
                    m = sparse.coo_array(v)
                    if w.get("stored_zeros"):
                        # a few explicitly stored zeros at positions where the matrix vanishes (symmetric pattern)
                        empty = np.argwhere(np.triu(v == 0))
                        if len(empty):
                            pick = empty[rg.choice(len(empty), size=min(len(empty), 3), replace=False)]
                            rows = np.concatenate([m.row, pick[:, 0], pick[:, 1]])
                            cols = np.concatenate([m.col, pick[:, 1], pick[:, 0]])
                            data = np.concatenate([m.data, np.zeros(2 * len(pick), dtype=m.data.dtype)])
                            m = sparse.coo_array((data, (rows, cols)), shape=v.shape)
                    return sparse.csr_array(m)

                self.full = {o: to_csr(v) for o, v in self.full.items()}
        # interleaved subspace labels (e.g. [0, 1, 0, 2, 1]) instead of contiguous blocks; order inside a block is kept
        if w.get("interleave") and w["fmt"] in ("scalar_idx", "dict", "list", "symkeys", "sympy_expr"):
            labels = np.array(self.idx)
            rg.shuffle(labels)
            old_of_new = np.empty(N, dtype=int)
            for b in range(nb):
                old_of_new[np.flatnonzero(labels == b)] = np.arange(self.offs[b], self.offs[b + 1])
            if self.sym:
                sel = [int(k) for k in old_of_new]
                self.full = {o: M.extract(sel, sel) for o, M in self.full.items()}
            else:
                self.full = {o: (M[old_of_new][:, old_of_new] if w["domain"] != "sparse" else M[old_of_new][:, old_of_new].tocsr())
                             for o, M in self.full.items()}
                if w["domain"] == "dense":
                    self.full = {o: np.ascontiguousarray(M) for o, M in self.full.items()}
            self.idx = labels
        # basis rotation for the eigenvector formats
        self.vecs = None
        if w["fmt"] == "implicit":
            from scipy import sparse

            Q, _ = np.linalg.qr(rg.normal(size=(N, N)) + (0 if w.get("real") else 1j) * rg.normal(size=(N, N)))
            cols = [np.arange(self.offs[b], self.offs[b + 1]) for b in range(nb - 1)]
            if w.get("pairs") and not w["herm"]:
                # biorthogonal (right, left) bases of a non-Hermitian problem: L^dagger R = 1 with L != R
                scale = rg.uniform(0.6, 1.6, size=N)
                R, L = Q * scale, Q / scale
                self.full = {o: sparse.csr_array(R @ v @ L.conj().T) for o, v in self.full.items()}
                self.vecs = tuple((np.ascontiguousarray(R[:, c]), np.ascontiguousarray(L[:, c])) for c in cols)
            else:
                self.full = {o: sparse.csr_array(Q @ v @ Q.conj().T) for o, v in self.full.items()}
                self.vecs = tuple(np.ascontiguousarray(Q[:, c]) for c in cols)  # the last block stays implicit
                self.aux = np.ascontiguousarray(Q[:, int(self.offs[nb - 1]):int(self.offs[nb - 1]) + 1])  # one known vector of the implicit block
        if w["fmt"] == "scalar_vecs":
            Q, _ = np.linalg.qr(rg.normal(size=(N, N)) + 1j * rg.normal(size=(N, N)))
            if w["domain"] == "wrapped":
                Q = np.eye(N, dtype=complex)  # exact projections: the library can only test a foreign element type with `== 0`
            if w["herm"]:
                R, L = Q, Q
            else:
                scale = rg.uniform(0.6, 1.6, size=N)
                R, L = Q * scale, Q / scale
            self.full = {o: R @ v @ L.conj().T for o, v in self.full.items()}
            cols = [np.arange(self.offs[b], self.offs[b + 1]) for b in range(nb)]
            if w["herm"]:
                self.vecs = tuple(np.ascontiguousarray(R[:, c]) for c in cols)
                if w.get("sparse_vecs") and w["domain"] == "dense":
                    from scipy import sparse

                    self.vecs = tuple(sparse.csr_array(v) for v in self.vecs)  # eigenvectors handed over as sparse arrays
            else:
                self.vecs = tuple((np.ascontiguousarray(R[:, c]), np.ascontiguousarray(L[:, c])) for c in cols)
        # blocks for the blocked format
        self.blocks = {}
        if w["fmt"] == "blocked":
            for o, M in self.full.items():
                for i in range(nb):
                    for j in range(nb):
                        if o == self.zero_o and i != j:
                            continue
                        if (i, j, o) in self.absent:
                            continue
                        sub = M[int(self.offs[i]):int(self.offs[i + 1]), int(self.offs[j]):int(self.offs[j + 1])]
                        if not self.sym and w["domain"] == "dense":
                            sub = np.ascontiguousarray(sub)
                        self.blocks[(i, j, *o)] = sub
        if w["domain"] == "wrapped":
            # a caller-defined element type around the same numbers
            self.blocks = {k: W(v) for k, v in self.blocks.items()}
            if w["fmt"] != "blocked":
                self.full = {o: W(v) for o, v in self.full.items()}
        if not self.sym and w["domain"] == "sparse" and w.get("mixed_dense") and w["fmt"] != "implicit":
            # some perturbation terms are handed over as dense arrays, others as sparse ones
            pick = lambda n: (n * 2654435761 + w["vseed"]) % 3 == 0  # noqa: E731 - deterministic choice per term
            if w["fmt"] == "blocked":
                self.blocks = {k: (v.toarray() if (any(k[2:]) and pick(sum(k))) else v) for k, v in self.blocks.items()}
            elif w["fmt"] != "nested":
                self.full = {o: (v.toarray() if (any(o) and pick(sum(o))) else v) for o, v in self.full.items()}
        # sparse inputs are handed over in the caller's favourite formats (the harness itself works on CSR)
        if not self.sym and w["domain"] == "sparse" and w.get("sparse_fmts") and w["fmt"] != "implicit":
            from scipy import sparse

            conv = {"csr": sparse.csr_array, "csc": sparse.csc_array, "coo": sparse.coo_array, "dia": sparse.dia_array}
            kinds = w["sparse_fmts"]
            if w["fmt"] == "blocked":
                self.blocks = {k: (conv[kinds[n % len(kinds)]](v) if sparse.issparse(v) else v) for n, (k, v) in enumerate(self.blocks.items())}
            elif w["fmt"] != "nested":
                self.full = {o: (conv[kinds[n % len(kinds)]](v) if sparse.issparse(v) else v) for n, (o, v) in enumerate(self.full.items())}
        # masks for selective diagonalisation
        self.masks = {}
        for c, comp in enumerate(w["comps"]):
            fd = comp.get("fd")
            if isinstance(fd, dict) and "sqmask" not in fd:
                mk = {}
                mr = np.random.default_rng(fd["mseed"])
                for b in fd["blocks"]:
                    s = sizes[b]
                    m = mr.random((s, s)) < 0.5
                    if comp["herm"]:
                        m = np.triu(m, 1)
                        m = m | m.T
                    np.fill_diagonal(m, False)
                    eb = self.e[int(self.offs[b]):int(self.offs[b + 1])]
                    for a in range(s):
                        for bb in range(s):
                            if a != bb and (eb[a] == eb[bb] if self.sym else abs(eb[a] - eb[bb]) < 1e-9):
                                m[a, bb] = False
                    mk[b] = m
                self.masks[c] = mk

    def _zero_blocks(self, A, o):
        for (i, j, oo) in self.absent:
            if oo == o:
                a0, a1, b0, b1 = int(self.offs[i]), int(self.offs[i + 1]), int(self.offs[j]), int(self.offs[j + 1])
                if self.sym:
                    import sympy

                    A[a0:a1, b0:b1] = sympy.zeros(a1 - a0, b1 - b0)
                else:
                    A[a0:a1, b0:b1] = 0
        return A

    def audit_objects(self):
        objs = {}
        for o, v in self.full.items():
            objs[("full", o)] = v
        for k, v in self.blocks.items():
            objs[("block", k)] = v
        if self.vecs is not None:
            for b, v in enumerate(self.vecs):
                if isinstance(v, tuple):
                    objs[("vecR", b)], objs[("vecL", b)] = v
                else:
                    objs[("vec", b)] = v
        objs[("idx",)] = self.idx
        for c, mk in self.masks.items():
            for b, m in mk.items():
                objs[("mask", c, b)] = m
        return objs


class Sim:
    """One simulated world: shared input objects, computations, derived client series."""

    def __init__(self, world, env):
        from pymablock.series import BlockSeries, zero

        self.w = world
        self.env = env
        self.inp = Inputs(world, alter=env.alter)
        W.hook = (lambda: env.tick("Mw", None)) if world["domain"] == "wrapped" else None
        self._solvers = {}
        self._fd_dicts = {c: dict(mk) for c, mk in self.inp.masks.items()}
        self.comps = {}
        self.chain_h = {}
        inp = self.inp
        fmt = world["fmt"]
        self.kw = {}
        recur = bool(world.get("h_recur"))
        if fmt == "blocked":
            def hcb(*index):
                index = tuple(int(i) for i in index)
                if recur and index[2] >= 1:
                    # the caller's Hamiltonian is itself a recurrence: a term looks at its own memoised previous order
                    self.h_root[(index[0], index[1], index[2] - 1, *index[3:])]
                return env.h_call(index, index[2:], lambda: inp.blocks.get(index, zero))

            self.user_data = None
            if world.get("h_data"):
                # the caller passes the unperturbed blocks through `data=`: that dictionary stays the caller's
                self.user_data = {(i, i, *inp.zero_o): inp.blocks[(i, i, *inp.zero_o)] for i in range(inp.nb)}
                self.user_data_keys = sorted(self.user_data)
            dn = tuple(f"alpha_{k}" for k in range(inp.npert)) if world.get("dimnames") else None
            self.H = BlockSeries(eval=hcb, data=self.user_data, shape=(inp.nb, inp.nb), n_infinite=inp.npert, name="Huser",
                                 dimension_names=dn)
            self.h_is_series = True
            self.h_root = self.H
            if world.get("view_input") and not world.get("h_data"):
                # the caller owns a larger series (one more, uncoupled, block) and passes a view of its leading blocks
                nbig = inp.nb + 1

                def hcb_big(*index):
                    index = tuple(int(i) for i in index)
                    if index[0] >= inp.nb or index[1] >= inp.nb:
                        return zero
                    return env.h_call(index, index[2:], lambda: inp.blocks.get(index, zero))

                self.h_root = BlockSeries(eval=hcb_big, shape=(nbig, nbig), n_infinite=inp.npert, name="Hbig", dimension_names=dn)
                self.H = self.h_root[: inp.nb, : inp.nb]
        elif fmt in ("scalar_idx", "scalar_vecs", "implicit"):
            if fmt == "implicit":
                scipy_shim()

            def hcb(*index):
                index = tuple(int(i) for i in index)
                if recur and index[0] >= 1:
                    self.H[(index[0] - 1, *index[1:])]
                return env.h_call(index, index, lambda: inp.full.get(index, zero))

            dn = tuple(f"alpha_{k}" for k in range(inp.npert)) if world.get("dimnames") else None
            self.H = BlockSeries(eval=hcb, shape=(), n_infinite=inp.npert, name="Huser", dimension_names=dn)
            self.h_is_series = True
        elif fmt in ("dict", "list"):
            full = dict(inp.full)
            if env.poison is not None:
                # poisoned twin for eager formats: out-of-cone terms are NaN-filled (or removed)
                for o in list(full):
                    if not any(leq(o, n) for n in env.poison):
                        if fmt == "dict" and sum(o) % 2:
                            del full[o]
                        else:
                            bad = full[o].astype(complex) * np.nan
                            full[o] = bad
            if fmt == "dict":
                self.H = full
            else:
                units = [tuple(int(k == a) for k in range(inp.npert)) for a in range(inp.npert)]
                self.H = [full[inp.zero_o]] + [full[u] for u in units]
            self.h_is_series = False
        elif fmt == "nested":
            # {order: [[block_ij]]}: the Hamiltonian terms are given as nested lists of blocks
            def blk(M, i, j):
                sub = M[int(inp.offs[i]):int(inp.offs[i + 1]), int(inp.offs[j]):int(inp.offs[j + 1])]
                return sub

            self.H = {o: [[blk(M, i, j) for j in range(inp.nb)] for i in range(inp.nb)] for o, M in inp.full.items()}
            self.h_is_series = False
            if world.get("nested_lazy"):
                # the same nested lists of blocks, but as the elements of a lazily evaluated series without finite dimensions
                nested = self.H

                def hcb(*index):
                    index = tuple(int(i) for i in index)
                    return env.h_call(index, index, lambda: nested.get(index, zero))

                self.nested = nested
                self.H = BlockSeries(eval=hcb, shape=(), n_infinite=inp.npert, name="Huser")
                self.h_is_series = True
        elif fmt == "symkeys":
            # {monomial: matrix} with symbolic keys; symbols are ordered by name, so x0 < x1 < x2 keeps the order of axes
            import sympy

            xs = sympy.symbols(f"x0:{inp.npert}")
            self.H = {}
            for o, M in inp.full.items():
                key = sympy.Integer(1)
                for x, p_ in zip(xs, o):
                    key = key * x**p_
                self.H[key] = M
            self.h_is_series = False
        elif fmt == "sympy_expr":
            # one sympy matrix polynomial in the perturbative symbols (Taylor-expanded lazily by the library)
            import sympy

            xs = sympy.symbols(f"x0:{inp.npert}")
            expr = sympy.zeros(inp.N, inp.N)
            for o, M in inp.full.items():
                mono = sympy.Integer(1)
                for x, p_ in zip(xs, o):
                    mono = mono * x**p_
                expr = expr + mono * M
            if world.get("fdiff_fn"):
                # the caller's Hamiltonian contains a function of the caller's own (a sympy Function with its own derivative
                # rule): user code that runs whenever the library differentiates a term.  F = exp - 1 written through fdiff;
                # its Taylor polynomial is subtracted again, so that the coefficients of the expansion stay inp.full
                class Fsim(sympy.Function):
                    @classmethod
                    def eval(cls, arg):
                        if arg == 0:
                            return sympy.Integer(0)

                    def fdiff(self, argindex=1):
                        env.tick("H", ("fdiff",))
                        return Fsim(self.args[0]) + 1

                poly = sum(xs[0] ** k / sympy.factorial(k) for k in range(1, 8))
                K = inp.full[tuple(int(k == 0) for k in range(inp.npert))]
                expr = expr + (Fsim(xs[0]) - poly) * K
            self.H = expr
            if not (world.get("infer_symbols") and env.active):
                # (the executed world may leave `symbols` to the library: all free symbols, ordered by name; the oracle
                # computation always names them)
                self.kw["symbols"] = list(xs)
            self.h_is_series = False
        else:
            raise ValueError(fmt)
        if world.get("symbols") and self.h_is_series:
            import sympy

            self.kw["symbols"] = list(sympy.symbols(f"lam0:{inp.npert}"))
        self.container = None
        if not self.h_is_series and isinstance(self.H, (dict, list)):
            self.container = [(k, id(v)) for k, v in (self.H.items() if isinstance(self.H, dict) else enumerate(self.H))]
        if fmt in ("scalar_vecs", "implicit"):
            self.kw["subspace_eigenvectors"] = inp.vecs
        elif fmt not in ("blocked", "nested"):
            kind = world.get("idx_type", "array")
            self.kw["subspace_indices"] = (tuple(int(k) for k in inp.idx) if kind == "tuple"
                                           else [int(k) for k in inp.idx] if kind == "list" else inp.idx)
        self.user_series = [self.H] if self.h_is_series else []
        if getattr(self, "h_root", None) is not None and self.h_root is not self.H:
            self.user_series.append(self.h_root)

    # ---- custom solvers (caller supplied)
    def audit_objects(self):
        objs = dict(self.inp.audit_objects())
        for c, dct in self._fd_dicts.items():
            objs[("fd_keys", c)] = np.array(sorted(dct))
        if self.w["fmt"] == "nested" and isinstance(getattr(self, "nested", self.H), dict):
            for o, rows in getattr(self, "nested", self.H).items():
                for i, row in enumerate(rows):
                    for j, blk in enumerate(row):
                        objs[("nested", o, i, j)] = blk
        return objs

    def _custom_solver(self, legacy):
        from scipy import sparse

        env, inp, zero = self.env, self.inp, self.inp.zero
        e = np.asarray(inp.e)

        def div(Y, i, j):
            if Y is zero:
                return zero
            if isinstance(Y, W):
                return W(div(Y.a, i, j))
            ea = e[int(inp.offs[i]):int(inp.offs[i + 1])]
            eb = e[int(inp.offs[j]):int(inp.offs[j + 1])]
            diff = ea.reshape(-1, 1) - eb.reshape(1, -1)
            if np.any(np.abs(diff) < 1e-9):
                raise ValueError("caller's solver: the subspaces share eigenvalues")
            den = 1 / diff
            if sparse.issparse(Y):
                return sparse.csr_array(Y.toarray() * den)
            return Y * den

        if legacy:
            def solve_sylvester(Y):
                env.tick("S", (0, 1))
                return div(Y, 0, 1)
        else:
            def solve_sylvester(Y, index):
                env.tick("S", tuple(int(i) for i in index))
                return div(Y, int(index[0]), int(index[1]))

            # the caller's solver need not be a plain two-argument function
            sig = self.w.get("solver_sig", "plain")
            if sig == "varargs":
                plain = solve_sylvester

                def solve_sylvester(Y, *rest):  # a pass-through wrapper (tracing / timing decorators look like this)
                    return plain(Y, *rest)
            elif sig == "callable":
                plain_c = solve_sylvester

                class Solver:
                    def __call__(self, Y, index):
                        return plain_c(Y, index)

                solve_sylvester = Solver()
            elif sig == "partial":
                import functools

                def with_option(option, Y, index, _plain=solve_sylvester):
                    return _plain(Y, index)

                solve_sylvester = functools.partial(with_option, "option")
        return solve_sylvester

    def build(self, c):
        """(Re)define computation c on the shared input objects.  May raise (injected fault)."""
        import warnings

        from pymablock import block_diagonalize
        from pymablock.series import BlockSeries, cauchy_dot_product

        spec = self.w["comps"][c]
        env = self.env
        if self.w["domain"] == "tracer":
            return self._build_tracer(c, spec)
        kw = dict(self.kw)
        kw["hermitian"] = spec["herm"]
        if self.w.get("atol"):
            kw["atol"] = self.w["atol"]
        fd = spec.get("fd")
        if isinstance(fd, dict) and "sqmask" in fd:
            per_block = fd.get("sqmask_by_block") or {}
            kw["fully_diagonalize"] = {b: self.inp.sq_masks[per_block.get(str(b), fd["sqmask"])].copy() for b in fd["blocks"]}
        elif isinstance(fd, dict):
            # the caller keeps its mask dictionary and passes the same object again when it re-defines the computation
            if c not in self._fd_dicts:
                self._fd_dicts[c] = dict(self.inp.masks[c])
            kw["fully_diagonalize"] = self._fd_dicts[c]
            if self.inp.nb == 1 and fd.get("bare"):
                kw["fully_diagonalize"] = self.inp.masks[c][0]  # one block: the boolean array may be given without a dict
        elif fd:
            kw["fully_diagonalize"] = tuple(fd)
        if self.w["fmt"] == "implicit" and spec.get("kpm"):
            kw["direct_solver"] = False
            kw["solver_options"] = {"atol": 1e-3}
            if spec.get("kpm_aux") and getattr(self.inp, "aux", None) is not None:
                kw["solver_options"]["auxiliary_vectors"] = self.inp.aux
        elif self.w["fmt"] == "implicit" and spec.get("eig_atol"):
            kw["solver_options"] = {"eigenvalue_atol": 1e-10}
        if spec.get("solver") in ("custom", "legacy"):
            # one solver object of the caller serves every computation (and every re-definition) that uses it
            key = spec["solver"]
            if key not in self._solvers:
                self._solvers[key] = self._custom_solver(key == "legacy")
            kw["solve_sylvester"] = self._solvers[key]
        if self.w.get("tmp_args"):
            # the caller computes the subspace arguments on the fly for every definition (fresh objects, gone after the call)
            if "subspace_indices" in kw:
                v = kw["subspace_indices"]
                kw["subspace_indices"] = np.array(v) if isinstance(v, np.ndarray) else type(v)(list(v))
            if "subspace_eigenvectors" in kw and not self.w.get("sparse_vecs"):
                kw["subspace_eigenvectors"] = list(kw["subspace_eigenvectors"])
        H = self.H
        if spec.get("chain") is not None:
            k = spec["chain"]
            if k not in self.comps:
                self.build(k)
            if c not in self.chain_h:
                src = self  # closure reads the *current* computation k

                def chain_eval(*index):
                    index = tuple(int(i) for i in index)
                    env.tick("Hc", index)
                    return src.comps[k]["out"][0][index]

                self.chain_h[c] = BlockSeries(eval=chain_eval, shape=(self.inp.nb, self.inp.nb),
                                              n_infinite=self.inp.npert, name=f"Hchain{c}")
                self.user_series.append(self.chain_h[c])
            H = self.chain_h[c]
            kw.pop("subspace_indices", None)
            kw.pop("subspace_eigenvectors", None)
        with seams(env), warnings.catch_warnings():
            warnings.simplefilter("ignore")
            out = block_diagonalize(H, **kw)
        derived = {}
        if self.w.get("derived"):
            Ht, U, Ui = out
            derived["d0"] = cauchy_dot_product(Ui, U, operator=env.mm, hermitian=bool(spec["herm"] and spec.get("d0_herm")))
            derived["d2"] = cauchy_dot_product(U, Ht, Ui, operator=env.mm)
            if has_d1(self.w, spec):
                if self.w["fmt"] == "blocked":
                    Hb = self.H
                else:
                    # the caller normalises the same input with the public helper (shares the input objects)
                    from pymablock import operator_to_BlockSeries

                    okw = {k: v for k, v in self.kw.items() if k in ("subspace_indices", "subspace_eigenvectors", "symbols")}
                    if self.w.get("op_name"):
                        okw["name"] = "H_caller"
                    if spec["herm"] or self.w["vseed"] % 2:
                        okw["hermitian"] = bool(spec["herm"])  # otherwise the documented default (not Hermitian) is relied upon
                    Hb = operator_to_BlockSeries(self.H, **okw)
                derived["d1"] = cauchy_dot_product(Ui, Hb, U, operator=env.mm)
        self.comps[c] = {"out": out, "derived": derived}

    def _build_tracer(self, c, spec):
        """series_computation level: every seam is a public argument (input eval, scope solver, operator)."""
        from pymablock import algorithms
        from pymablock.algorithm_parsing import series_computation
        from pymablock.series import cauchy_dot_product

        env, zero = self.env, self.inp.zero

        def solve_sylvester(Y, index):
            env.tick("S", tuple(int(i) for i in index))
            if Y is zero:
                return zero
            return T.fun("S", Y, int(index[0]), int(index[1]))

        scope = {"solve_sylvester": solve_sylvester,
                 "two_block_optimized": bool(spec.get("two_block_optimized")) and self.inp.nb == 2,
                 "commuting_blocks": list(spec.get("commuting_blocks") or [True] * self.inp.nb)}
        algo = algorithms.main if spec["herm"] else algorithms.nonhermitian
        series, _ = series_computation({"H": self.H}, algorithm=algo, scope=scope, operator=env.mm)
        out = (series["H_tilde"], series["U"], series["U†"])
        derived = {}
        if self.w.get("derived"):
            Ht, U, Ui = out
            derived["d0"] = cauchy_dot_product(Ui, U, operator=env.mm, hermitian=bool(spec["herm"] and spec.get("d0_herm")))
            derived["d2"] = cauchy_dot_product(U, Ht, Ui, operator=env.mm)
            derived["d1"] = cauchy_dot_product(Ui, self.H, U, operator=env.mm)
        self.comps[c] = {"out": out, "derived": derived}

    def has(self, c, s):
        if c not in self.comps:
            return True  # will be built on demand
        return s in SERIES or s in self.comps[c]["derived"]

    def shared_other_partition(self, shift):
        """block_diagonalize on the caller's own (scalar) Hamiltonian series with the blocks in rotated order."""
        import warnings

        from pymablock import block_diagonalize

        w, inp = self.w, self.inp
        if not self.h_is_series or w["fmt"] not in ("scalar_idx", "scalar_vecs") or inp.nb < 2 or w["domain"] not in ("dense", "sparse"):
            return False
        if any(sp.get("chain") is not None for sp in w["comps"]) or shares_eigenvalues(w):
            return False
        k = 1 + shift % (inp.nb - 1)
        kw = {"hermitian": w["comps"][0]["herm"]}
        if "symbols" in self.kw:
            kw["symbols"] = self.kw["symbols"]
        with warnings.catch_warnings():
            warnings.simplefilter("ignore")
            # the subspace arguments are temporaries of the caller (computed on the fly, gone after the call) ...
            if w["fmt"] == "scalar_idx":
                kind = w.get("idx_type", "array")
                rot = [int((b + k) % inp.nb) for b in inp.idx]
                out = block_diagonalize(self.H, subspace_indices=(tuple(rot) if kind == "tuple" else rot if kind == "list" else np.array(rot)), **kw)
                del rot
            else:
                out = block_diagonalize(self.H, subspace_eigenvectors=[*inp.vecs[k:], *inp.vecs[:k]], **kw)
            if shift % 2:
                out[0][0, 0, *((0,) * (inp.npert - 1)), 1]
                out[1][0, 1, *((0,) * (inp.npert - 1)), 1]
        # ... while the computation itself stays alive in the caller's hands
        self.kept_alive = getattr(self, "kept_alive", []) + [out]
        return True

    def series(self, c, s):
        comp = self.comps[c]
        if s in SERIES:
            return comp["out"][SERIES.index(s)]
        if s.startswith("int:"):
            return comp["out"][0].eval.__globals__["series"][s[4:]]
        if s.startswith("lin:"):
            return comp["out"][0].eval.__globals__["linear_operator_series"][s[4:]]
        return comp["derived"][s]

    def derived_names(self, c):
        spec = self.w["comps"][c]
        if not self.w.get("derived"):
            return []
        names = ["d0", "d2"]
        if has_d1(self.w, spec):
            names.append("d1")
        return names

    def roots(self):
        r = list(self.user_series)
        for comp in self.comps.values():
            r.extend(comp["out"])
            r.extend(comp["derived"].values())
        return r


_INTERNAL = {}


def internal_names(herm):
    """Names of all series (incl. products and the normalised input) of the shipped algorithm."""
    if herm not in _INTERNAL:
        from pymablock import algorithms
        from pymablock.algorithm_parsing import _parse_algorithm

        terms, products, outputs = _parse_algorithm(algorithms.main if herm else algorithms.nonhermitian)
        names = ["H"] + [t.name for t in terms if t.name not in ("H_tilde", "U", "U†")] + [p.name for p in products]
        _INTERNAL[herm] = ["int:" + n for n in names]
    return _INTERNAL[herm]


def has_d1(world, spec):
    return spec.get("chain") is None and world["fmt"] != "implicit"


def comp_names(world, c):
    spec = world["comps"][c]
    names = list(SERIES)
    if world.get("derived"):
        names += ["d0", "d2"] + (["d1"] if has_d1(world, spec) else [])
    if world.get("internals"):
        names += internal_names(bool(spec["herm"]))
        if world["fmt"] == "implicit":
            names += ["lin:" + n[4:] for n in internal_names(bool(spec["herm"]))] + ["lin:H_tilde", "lin:U", "lin:U†"]
    return names


def shares_eigenvalues(world):
    """Worlds in which two blocks share an unperturbed eigenvalue: whether a request needs the ill-defined
    quantity (and raises) depends on which zeros are already known, so only values are compared there."""
    return bool(world.get("illposed") or world.get("sectors"))


def world_box(world):
    return world.get("box", BOX[world["npert"]])


def box_orders(world):
    b = world_box(world)
    return [n for n in itertools.product(range(b + 1), repeat=world["npert"])]


def world_cap(world):
    cap = world.get("cap", {1: 4, 2: 3, 3: 2}[world["npert"]])
    return cap


def all_keys(world, used=None):
    nb = len(world["sizes"])
    keys = []
    cap = world_cap(world)
    for c, spec in enumerate(world["comps"]):
        for s in comp_names(world, c):
            if used is not None and (c, s) not in used:
                continue
            for i in range(nb):
                for j in range(nb):
                    for n in box_orders(world):
                        if sum(n) <= cap:
                            keys.append((c, s, i, j, n))
    keys.sort(key=lambda k: (sum(k[4]), k[4], k[0], k[1], k[2], k[3]))
    return keys


_TABLE_CACHE = {}


def fresh_table(world, used=None):
    """Oracle: values of a freshly built, undisturbed computation (canonical ascending order)."""
    import json

    wkey = json.dumps([world, sorted(used) if used is not None else None], sort_keys=True)
    if wkey in _TABLE_CACHE:
        return _TABLE_CACHE[wkey]
    env = Env(active=False)
    sim = Sim(world, env)
    table = {}
    for c in range(len(world["comps"])):
        sim.build(c)
    for key in all_keys(world, used):
        c, s, i, j, n = key
        try:
            v = sim.series(c, s)[(i, j, *n)]
            table[key] = _snap(norm(v))
        except Exception as e:  # ill-posed members
            x = e
            while x is not None:
                if isinstance(x, TracerOverflow):
                    raise TracerOverflow() from None
                x = x.__cause__ or x.__context__
            table[key] = ("raise", type(e).__name__, str(e)[:160])
    if len(_TABLE_CACHE) > 6:
        _TABLE_CACHE.clear()
    _TABLE_CACHE[wkey] = table
    return table


def fails_alike(table, e):
    """The undisturbed computation itself fails with this very error for some element (a failure outside the library's
    control, e.g. an operand format the array library cannot add): whether a request runs into that element then depends
    on which zeros are already known, exactly as for ill-posed members (DESIGN.md 10.3)."""
    name, msg = type(e).__name__, str(e)[:160]
    return any(v[0] == "raise" and v[1] == name and (len(v) < 3 or v[2] == msg) for v in table.values())


def fresh_single(world, key):
    """Variant (b) of the oracle: one fresh computation for this element only."""
    env = Env(active=False)
    sim = Sim(world, env)
    c, s, i, j, n = key
    try:
        sim.build(c)
        return _snap(norm(sim.series(c, s)[(i, j, *n)]))
    except Exception as e:
        return ("raise", type(e).__name__, str(e)[:160])


def _snap(n):
    if n[0] == "arr":
        return ("arr", np.array(n[1], copy=True))
    return n


# =========================================================================================
# execution of one case


class GraphProp:
    """Shared executor; subclasses set id, flags and generation profile."""

    level = "exploration"
    run_timeout = 120
    check_cone = False
    check_mutation = True
    final_sweep = "sample"  # "all" | "sample" | None
    single_fresh = 0  # number of elements per run compared with a one-element fresh computation
    components_real = ["all of pymablock (series, algorithm_parsing, algorithms, block_diagonalization, linalg)"]
    components_stub = ["SciPy-1.18 shim: ComplementProjector.__init__ additionally calls LinearOperator.__init__ when the base was not initialised (implicit-mode worlds only, values untouched)",
                       "scipy.sparse.linalg.eigsh start vector fixed while a KPM solver is constructed (the library's only result-affecting randomness)",
                       "Hamiltonian-term callback (simulator-owned user BlockSeries eval)",
                       "Sylvester solver (real solver wrapped at the factory seam, or simulator-supplied caller solver)",
                       "element multiplication (logging/faulting wrapper around the real operator)",
                       "series names (token_hex counter)"]

    # ------------------------------------------------------------------ execute
    def execute(self, case):
        if case.get("witness"):
            from simkit import witness

            return witness.run(case["witness"])
        T.work, T.budget = 0, 600000
        try:
            return self._execute(case)
        except TracerOverflow:
            # the exact expressions outgrew the budget of a run: skipped, not judged
            return {"violation": None, "digest": "overflow", "events": 0, "nontrivial": False,
                    "counters": {"tracer_overflow": 1}, "states": [], "op_ticks": {}}

    def _execute(self, case):
        from pymablock.series import BlockSeries

        world = case["world"]
        ops = case["ops"]
        used = {(c, s) for c in range(len(world["comps"])) for s in SERIES}
        for op in ops:
            if op[0] in ("get", "in", "sl", "view") and isinstance(op[1], int) and op[1] < len(world["comps"]):
                used.add((op[1], op[2]))
        table = fresh_table(world, used)
        cap = world_cap(world)
        env = Env(faults=case.get("faults", ()), poison=case.get("poison"), alter=case.get("alter"))
        sim = Sim(world, env)
        nb, npert = len(world["sizes"]), world["npert"]
        box = world_box(world)
        counters = {}
        stats = {}
        states = []

        def bump(k, n=1):
            counters[k] = counters.get(k, 0) + n

        violation = None

        def fail(cls, detail):
            nonlocal violation
            if violation is None:
                violation = {"class": cls, "detail": detail}

        # ids of table cells, for numpy-model indexing of slices and views
        cell_keys = []
        id_arrays = {}
        for c, spec in enumerate(world["comps"]):
            for s in comp_names(world, c):
                arr = np.empty((nb, nb) + (box + 1,) * npert, dtype=int)
                for pos in np.ndindex(*arr.shape):
                    arr[pos] = len(cell_keys)
                    cell_keys.append((c, s, pos[0], pos[1], tuple(pos[2:])))
                id_arrays[(c, s)] = arr
        views = {}
        audit_in = {k: raw_fingerprint(v) for k, v in sim.audit_objects().items()}
        handed = []
        user_seen = {}  # elements of the caller's own series, fingerprinted when first seen
        hist = {}  # (series name, index) -> 1 present, 2 evicted, 3 recomputed
        depth_at_fault = []

        def on_fault():
            try:
                depth_at_fault.append(len(graphwalk.pending_entries(graphwalk.walk(sim.roots()))))
            except Exception:
                depth_at_fault.append(0)

        env.on_fault = on_fault
        op_kinds = set()
        value_ops = 0
        special = False

        def ensure_built(c, opi):
            """Implicit (re)definition of a computation; a checked step of its own."""
            if c in sim.comps:
                return True
            chain = world["comps"][c].get("chain")
            if chain is not None and not ensure_built(chain, opi):
                return False
            return self._step(sim, env, ("build", c), opi, table, None, fail, bump, handed, stats) == "ok"

        for opi, op in enumerate(ops):
            if violation:
                break
            kind = op[0]
            env.begin(opi)
            try:
                if kind == "aux":
                    # an unrelated computation defined and used in between (its own inputs; nothing of it is compared)
                    try:
                        unrelated_computation(len(world["sizes"]), op[2], op[1])
                        bump("unrelated_computation_" + op[1])
                    except batch.RunTimeout:
                        raise
                    except Exception as e:  # noqa: BLE001
                        fail("unrelated-computation-raised", f"op#{opi} {op}: {type(e).__name__}: {e}")
                    env.events.append(("aux", opi, op[1]))
                    continue
                if kind == "peek":
                    # the caller looks at a term of its own Hamiltonian series (which the library then finds cached)
                    if not sim.h_is_series:
                        continue
                    _, pi, pj, pn = op
                    H_ = sim.H
                    if len(pn) != H_.n_infinite or pi >= len(world["sizes"]) or pj >= len(world["sizes"]):
                        continue
                    fired_before = len(env.fired)
                    try:
                        H_[(pi, pj, *pn)] if H_.shape else H_[tuple(pn)]
                        bump("caller_peeks_at_term")
                    except BaseException as e:  # noqa: BLE001
                        if isinstance(e, batch.RunTimeout):
                            raise
                        if len(env.fired) > fired_before:
                            env.events.append(("peek-fault", opi))  # an injected fault met the caller's own access
                        elif not isinstance(e, Poisoned):
                            fail("peek-raised", f"op#{opi} {op}: the caller's own series raised {type(e).__name__}: {e}")
                    env.events.append(("peek", opi))
                    continue
                if kind == "aux_shared":
                    # another computation on the *same* Hamiltonian object with the blocks taken in another order (temporary
                    # subspace arguments); nothing of it is compared
                    fired_before = len(env.fired)
                    try:
                        if env.poison is None and sim.shared_other_partition(op[1]):
                            bump("other_partition_of_same_input")
                    except BaseException as e:  # noqa: BLE001
                        if isinstance(e, batch.RunTimeout):
                            raise
                        if len(env.fired) > fired_before:
                            env.events.append(("aux-fault", opi))
                        else:
                            fail("unrelated-computation-raised", f"op#{opi} {op}: {type(e).__name__}: {e}")
                    env.events.append(("aux_shared", opi))
                    continue
                if kind == "build":
                    c = op[1]
                    if c >= len(world["comps"]):
                        continue
                    if c in sim.comps and not op[2:]:
                        continue
                    chain = world["comps"][c].get("chain")
                    if chain is not None and not ensure_built(chain, opi):
                        continue
                    h0 = len(env.h_calls)
                    status = self._step(sim, env, ("build", c), opi, table, None, fail, bump, handed, stats)
                    if self.check_cone and status == "ok":
                        for key, order in env.h_calls[h0:]:
                            if any(order):
                                fail("eager-definition", f"op#{opi} build comp {c}: defining the computation evaluated Hamiltonian term {key} of order {order}")
                    op_kinds.add("build")
                    continue
                if kind in ("get", "in"):
                    _, c, s, i, j, n = op
                    if c >= len(world["comps"]) or i >= nb or j >= nb or (c, s) not in id_arrays:
                        continue
                    if not ensure_built(c, opi):
                        continue
                    if s not in comp_names(world, c):
                        continue
                    target = sim.series(c, s)
                    if kind == "in":
                        r = (i, j, *n) in target
                        env.events.append(("in", opi, bool(r)))
                        op_kinds.add("in")
                        continue
                    item = (i, j, *n)
                    sel = id_arrays[(c, s)][item]
                    may = None
                    orders = [tuple(n)]
                elif kind == "sl":
                    _, c, s, item_spec = op
                    if c >= len(world["comps"]) or (c, s) not in id_arrays:
                        continue
                    if not ensure_built(c, opi):
                        continue
                    if s not in comp_names(world, c):
                        continue
                    target = sim.series(c, s)
                    item = to_py(item_spec)
                    try:
                        sel = id_arrays[(c, s)][item]
                    except IndexError:
                        continue
                    may = None
                elif kind == "view":
                    _, c, s, item_spec, vlabel = op
                    if c >= len(world["comps"]) or (c, s) not in id_arrays:
                        continue
                    if not ensure_built(c, opi):
                        continue
                    if s not in comp_names(world, c):
                        continue
                    item = to_py(item_spec)
                    try:
                        Dv = id_arrays[(c, s)][item + (slice(None),) * npert]
                    except IndexError:
                        continue
                    try:
                        V = sim.series(c, s)[item]
                    except BaseException as e:  # view creation evaluates nothing
                        fail("view-creation", f"op#{opi} {op}: creating a view raised {type(e).__name__}: {e}")
                        continue
                    if not isinstance(V, BlockSeries) or tuple(V.shape) != tuple(Dv.shape[:Dv.ndim - npert]):
                        fail("view-shape", f"op#{opi} {op}: view has shape {getattr(V, 'shape', None)}, numpy gives {Dv.shape[:Dv.ndim - npert]}")
                        continue
                    packed = not all(isinstance(x, int) for x in item)
                    views[vlabel] = (V, Dv, Dv.ndim - npert, ((Dv, Dv.ndim - npert),) if packed else (), c)
                    env.events.append(("view", opi, tuple(Dv.shape)))
                    op_kinds.add("view")
                    special = True
                    bump("op_view_create")
                    continue
                elif kind == "vget":
                    _, vid, item_spec = op
                    if vid not in views:
                        continue
                    target, Dv, nfin, anc, c = views[vid]
                    if c not in sim.comps:
                        continue
                    item = to_py(item_spec)
                    if len(item) != nfin + npert:
                        continue
                    try:
                        sel = Dv[item]
                    except IndexError:
                        continue
                    may = set()
                    for Dp, nfp in anc:
                        may.update(np.asarray(Dp[(slice(None),) * nfp + item[nfin:]]).ravel().tolist())
                    bump("op_on_view")
                    special = True
                else:
                    continue
                op_kinds.add(kind)
                must = np.asarray(sel).ravel().tolist()
                if kind != "get":
                    orders = sorted({cell_keys[k][4] for k in must})
                    if isinstance(sel, np.ndarray):
                        bump("op_array")
                        special = True
                if not must or any(sum(cell_keys[k][4]) > cap for k in must) or any(
                        sum(cell_keys[k][4]) > cap for k in (may or ())):
                    continue
                # poisoned twin: only in-cone requests are legal
                if env.poison is not None and not all(any(leq(o, n) for n in env.poison) for o in orders):
                    continue
                h0 = len(env.h_calls)
                if env.alter is not None and not all(any(leq(o, n) for n in env.alter["cone"]) for o in orders):
                    # altered twin: this request legitimately evaluates altered terms; its value is not judged, the
                    # requests inside the protected cone that follow are (against the oracle of the unaltered world)
                    try:
                        target[item]
                    except batch.RunTimeout:
                        raise
                    except Exception:  # noqa: BLE001
                        bump("altered_request_raised")
                    bump("altered_out_of_cone_request")
                    env.events.append(("altered-req", opi))
                    if self.check_cone:
                        for key, order in env.h_calls[h0:]:
                            if not any(leq(order, n) for n in orders):
                                fail("cone", f"op#{opi} {op}: requesting orders {orders} evaluated Hamiltonian term {key} of order {order}")
                                break
                    continue
                status = self._step(sim, env, ("req", target, item, sel, may, cell_keys), opi, table, None, fail, bump, handed, stats)
                if status == "ok":
                    value_ops += 1
                if self.check_cone:
                    for key, order in env.h_calls[h0:]:
                        if not any(leq(order, n) for n in orders):
                            fail("cone", f"op#{opi} {op}: requesting orders {orders} evaluated Hamiltonian term {key} of order {order}")
                            break
            finally:
                if env.op is not None:
                    env.end()
                # invariants after every client-visible step
                if violation is None:
                    try:
                        smap = graphwalk.walk(sim.roots())
                    except Exception as e:  # introspection degraded: black-box part still decides
                        smap = {}
                        bump("introspection_degraded")
                    pend = graphwalk.pending_entries(smap)
                    if pend:
                        fail("pending-left", f"after op#{opi} {op}: in-flight marker left in {pend[:3]}")
                    if self.check_cone or True:
                        for key, cnt in env.h_ok.items():
                            if cnt > 1:
                                fail("term-evaluated-twice", f"after op#{opi} {op}: Hamiltonian term {key} evaluated {cnt} times")
                                break
                    if env.seam_violations:
                        fail("solver-verdict-history-dependent", f"op#{opi} {op}: {env.seam_violations[0]}")
                    if env.poison_touched:
                        key, order = env.poison_touched[0]
                        fail("poisoned-term-touched", f"op#{opi} {op}: term {key} (order {order}) outside the cone {env.poison} was evaluated")
                    if self.check_mutation:
                        for us in sim.user_series:
                            for k, v in us._data.items():
                                if (id(us), k) not in user_seen and v is not None:
                                    nv = norm(v)
                                    if nv[0] not in ("zero", "one", "obj"):
                                        user_seen[(id(us), k)] = (v, fingerprint(nv))
                    # memo-state signature + eviction/recompute probe
                    sig = []
                    for sobj in smap.values():
                        nm = sobj.name
                        if nm.startswith("Series_"):
                            continue
                        keys = sobj._data.keys()
                        sig.append((nm, len(keys)))
                        for k in keys:
                            st = hist.get((id(sobj), k))
                            if st is None:
                                hist[(id(sobj), k)] = 1
                            elif st == 2:
                                hist[(id(sobj), k)] = 3
                                bump("recompute_after_eviction")
                    for (sid, k), st in list(hist.items()):
                        if st in (1, 3) and sid in smap and k not in smap[sid]._data:
                            hist[(sid, k)] = 2
                            bump("eviction_observed")
                    states.append(format(hash(tuple(sorted(sig))) & 0xFFFFFFFFFFFF, "x"))

        # ---- after the schedule
        if violation is None and env.poison is None and env.alter is None:
            env.faults_enabled = False
            env.sticky.clear()
            self._final(sim, env, world, table, case, fail, bump, handed, stats)
            if violation is None and self.single_fresh:
                # variant (b) of the oracle: one fresh computation for this element only (the literal reading of
                # "equals the value from a fresh computation"); the element is chosen from what the schedule touched
                touched = [op for op in ops if op[0] == "get" and isinstance(op[1], int) and op[1] < len(world["comps"])]
                pick = touched[:: max(1, len(touched) // self.single_fresh)][: self.single_fresh]
                for op in pick:
                    key = (op[1], op[2], op[3], op[4], tuple(op[5]))
                    if key not in table or table[key][0] == "raise" or shares_eigenvalues(world):
                        continue
                    alone = fresh_single(world, key)
                    bump("single_fresh_checked")
                    if alone[0] == "raise" and self._external_failure({key: alone}, [key]):
                        bump("deterministic_failure_reached_by_this_history")
                        continue
                    if not same(alone, table[key], stats):
                        fail("fresh-single-vs-walk", f"{key}: a fresh computation asked for this element only gives {self._show_n(alone)}, the ascending walk of a fresh computation gives {self._show_n(table[key])}")
                        break
        if violation is None and self.check_mutation:
            for k, v in sim.audit_objects().items():
                if raw_fingerprint(v) != audit_in[k]:
                    fail("input-mutated", f"caller-owned input {k} changed during the run")
                    break
            for what, obj, fp in handed:
                if fingerprint(norm(obj)) != fp:
                    fail("returned-value-mutated", f"value handed out by {what} was modified by a later evaluation")
                    break
            if sim.container is not None:
                now = [(k, id(v)) for k, v in (sim.H.items() if isinstance(sim.H, dict) else enumerate(sim.H))]
                if now != sim.container:
                    fail("input-mutated", "the caller's dict/list of Hamiltonian terms was changed (keys or element identities)")
            if getattr(sim, "user_data", None) is not None and sorted(sim.user_data) != sim.user_data_keys:
                fail("input-mutated", f"the dict passed as data= to the caller's BlockSeries changed: keys {sorted(sim.user_data)}")
            for (sid, k), (obj, fp) in user_seen.items():
                if fingerprint(norm(obj)) != fp:
                    fail("input-mutated", f"cached element {k} of the caller's Hamiltonian series was modified")
                    break
        if depth_at_fault:
            bump("fault_depth_ge2", sum(1 for d in depth_at_fault if d >= 2))
            bump("fault_depth_max", 0)
        bump("h_term_order_ge1", sum(1 for _, o in env.h_calls if sum(o) >= 1))
        bump("h_term_order_ge2", sum(1 for _, o in env.h_calls if sum(o) >= 2))
        for k, v in env.counts.items():
            bump(k, v)
        for k, v in stats.items():
            bump(k, v)
        if world.get("illposed"):
            bump("illposed_world")
        if len(world["comps"]) > 1:
            bump("multi_comp_world")
        if any(spec.get("chain") is not None for spec in world["comps"]):
            bump("chain_world")
        bump("domain_" + world["domain"])
        bump("fmt_" + world["fmt"])
        if any(spec.get("kpm") for spec in world["comps"]):
            bump("kpm_world")
        if any(op[0] in ("get", "sl") and isinstance(op[2], str) and op[2].startswith("lin:") for op in ops):
            bump("linop_twin_requested")
        if any(op[0] in ("get", "sl") and isinstance(op[2], str) and op[2].startswith("int:") for op in ops):
            bump("internal_requested")
        digest = batch.digest_of(env.events)
        nontrivial = self.nontrivial(case, counters, op_kinds, value_ops, special, depth_at_fault)
        return {"violation": violation, "digest": digest, "events": len(env.events), "nontrivial": nontrivial,
                "counters": counters, "states": states, "op_ticks": dict(env.op_ticks)}

    def nontrivial(self, case, counters, op_kinds, value_ops, special, depth_at_fault):
        return value_ops >= 3 and len(op_kinds) >= 2 and (special or counters.get("recompute_after_eviction", 0) > 0)

    # ------------------------------------------------------------------ one checked step
    def _step(self, sim, env, what, opi, table, _unused, fail, bump, handed, stats):
        """Perform one library call and compare its outcome with the oracle.  Returns 'ok'|'raised'."""
        fired_before = len(env.fired)
        try:
            if what[0] == "build":
                sim.build(what[1])
                res = None
            else:
                _, target, item, sel, may, cell_keys = what
                res = target[item]
            raised = None
        except BaseException as e:  # noqa: BLE001 - the caller of the library sees everything
            if isinstance(e, batch.RunTimeout):
                raise
            raised = e
            x = e
            while x is not None:
                if isinstance(x, TracerOverflow):
                    raise TracerOverflow() from None
                x = x.__cause__ or x.__context__
        fired = env.fired[fired_before:]
        desc = f"op#{opi} {'build ' + str(what[1]) if what[0] == 'build' else self._desc(what)}"
        if fired:
            inj = fired[0]
            if raised is None:
                fail("fault-swallowed", f"{desc}: {type(inj).__name__} was injected in a callback but the request returned normally")
                return "ok"
            chain, seen = [], set()
            stack = [raised]
            while stack:
                x = stack.pop()
                if x is None or id(x) in seen:
                    continue
                seen.add(id(x))
                chain.append(x)
                stack.extend([x.__cause__, x.__context__])
            if not any(x is f for x in chain for f in fired):
                fail("fault-lost", f"{desc}: injected {type(inj).__name__} is not reachable from the raised {type(raised).__name__}: {raised}")
            elif not isinstance(inj, Exception) and isinstance(raised, Exception):
                fail("fault-converted", f"{desc}: injected {type(inj).__name__} reached the caller as {type(raised).__name__}")
            env.events.append(("raise", opi, type(raised).__name__))
            bump("op_raised_by_fault")
            return "raised"
        if what[0] == "build":
            if raised is not None:
                fail("unexpected-raise", f"{desc}: raised {type(raised).__name__}: {raised}")
                return "raised"
            env.events.append(("built", opi))
            return "ok"
        # request: compare with the fresh-computation table
        must = np.asarray(sel).ravel().tolist()
        exp_raise = [k for k in must if table[cell_keys[k]][0] == "raise"]
        may_raise = [k for k in (may or ()) if table[cell_keys[k]][0] == "raise"]
        if isinstance(raised, Poisoned):
            env.events.append(("raise", opi, "Poisoned"))
            return "raised"  # reported through env.poison_touched
        ill = shares_eigenvalues(sim.w)
        if raised is not None:
            env.events.append(("raise", opi, type(raised).__name__))
            if exp_raise or may_raise:
                bump("illposed_raise")
                return "raised"
            if ill and isinstance(raised, ValueError) and "share eigenvalues" in str(raised):
                # whether the ill-defined quantity is needed depends on which zeros are already known
                bump("illposed_raise_where_table_value")
                return "raised"
            if fails_alike(table, raised):
                bump("deterministic_failure_reached_by_this_history")
                return "raised"
            fail("unexpected-raise", f"{desc}: a fresh computation returns a value, this request raised {type(raised).__name__}: {raised}")
            return "raised"
        if exp_raise:
            if not ill and not self._external_failure(table, [cell_keys[k] for k in exp_raise]):
                fail("outcome-history-dependent", f"{desc}: a fresh computation raises {table[cell_keys[exp_raise[0]]][1]} for {cell_keys[exp_raise[0]]}, this request returned a value")
                return "ok"
            bump("illposed_value_where_table_raised")
        # value comparison
        if isinstance(sel, np.ndarray):
            if not isinstance(res, np.ma.MaskedArray) or res.shape != sel.shape:
                fail("array-shape", f"{desc}: result {type(res).__name__} shape {getattr(res, 'shape', None)}, numpy model gives {sel.shape}")
                return "ok"
            mask = np.ma.getmaskarray(res)
            for pos in np.ndindex(*sel.shape):
                want = table[cell_keys[int(sel[pos])]]
                if want[0] == "raise":
                    continue
                if want[0] == "zero":
                    if not mask[pos]:
                        fail("value-mismatch", f"{desc}: cell {cell_keys[int(sel[pos])]} should be absent (masked)")
                        return "ok"
                    continue
                if mask[pos] or not same(norm(res.data[pos]), want, stats):
                    fail("value-mismatch", f"{desc}: cell {cell_keys[int(sel[pos])]} differs from a fresh computation: got {self._show(None if mask[pos] else res.data[pos])} want {self._show_n(want)}")
                    return "ok"
            env.events.append(("ret", opi, fingerprint(norm(res))))
            handed.append((desc, res, fingerprint(norm(res))))
        else:
            want = table[cell_keys[int(sel)]]
            got = norm(res)
            if want[0] != "raise" and not same(got, want, stats):
                fail("value-mismatch", f"{desc}: {cell_keys[int(sel)]} differs from a fresh computation: got {self._show(res)} want {self._show_n(want)}")
                return "ok"
            fp = fingerprint(got)
            env.events.append(("ret", opi, fp))
            if got[0] not in ("zero", "one"):
                handed.append((desc, res, fp))
        return "ok"

    def _final(self, sim, env, world, table, case, fail, bump, handed, stats):
        """Bounded liveness once faults stopped: every element answers, in one call, with the table value."""
        mode = self.final_sweep
        if not mode:
            return
        keys = [k for k in all_keys(world) if k in table]
        if mode == "sample":
            keys = keys[:: max(1, len(keys) // 24)]
        env.begin("final")
        try:
            for c in range(len(world["comps"])):
                if c not in sim.comps:
                    try:
                        sim.build(c)
                    except BaseException as e:  # noqa: BLE001
                        fail("final-build-raised", f"final sweep: defining computation {c} raised {type(e).__name__}: {e}")
                        return
            for key in keys:
                c, s, i, j, n = key
                if s not in comp_names(world, c):
                    continue
                want = table[key]
                try:
                    v = sim.series(c, s)[(i, j, *n)]
                except BaseException as e:  # noqa: BLE001
                    if isinstance(e, batch.RunTimeout):
                        raise
                    x = e
                    while x is not None:
                        if isinstance(x, TracerOverflow):
                            raise TracerOverflow() from None
                        x = x.__cause__ or x.__context__
                    ill = (shares_eigenvalues(world) and isinstance(e, ValueError) and "share eigenvalues" in str(e)) or fails_alike(table, e)
                    if want[0] != "raise" and not ill:
                        fail("final-raise", f"final sweep: {key} raised {type(e).__name__}: {e} (a fresh computation returns a value)")
                        return
                    continue
                if want[0] == "raise":
                    if not shares_eigenvalues(world) and not self._external_failure(table, [key]):
                        fail("outcome-history-dependent", f"final sweep: {key} returned a value, a fresh computation raises {want[1]}")
                        return
                    continue
                if not same(norm(v), want, stats):
                    fail("final-value", f"final sweep: {key} differs from a fresh computation: got {self._show(v)} want {self._show_n(want)}")
                    return
                bump("final_checked")
            pend = graphwalk.pending_entries(graphwalk.walk(sim.roots()))
            if pend:
                fail("pending-left", f"after final sweep: in-flight marker left in {pend[:3]}")
        finally:
            env.end()

    @staticmethod
    def _external_failure(table, keys):
        """The fresh computation failed for these elements with an error that is not one of the library's own verdicts
        (ValueError / TypeError / NotImplementedError raised by pymablock would be a finding of another property):
        an error from the array library below, which another history may never reach because of known zeros."""
        msgs = [table[k][2] for k in keys if len(table[k]) > 2]
        return bool(msgs) and all("could not be broadcast" in m or "inconsistent shapes" in m for m in msgs)

    @staticmethod
    def _desc(what):
        _, target, item, sel, may, cell_keys = what
        first = cell_keys[int(np.asarray(sel).ravel()[0])]
        return f"comp {first[0]} {first[1]}[{item}]"

    @staticmethod
    def _show(x):
        r = repr(x).replace("\n", " ")
        return r if len(r) < 200 else r[:200] + "..."

    @staticmethod
    def _show_n(n):
        r = repr(n[1:] if n[0] != "arr" else n[1]).replace("\n", " ")
        return n[0] + ":" + (r if len(r) < 200 else r[:200] + "...")

    # ------------------------------------------------------------------ generation helpers
    def gen_world(self, r, tier, profile):
        npert = r.choice([1, 1, 1, 2, 2, 3])
        nb = r.choice([1, 2, 2, 2, 3, 3, 4])
        domain = r.choice(profile.get("domains", ["dense"] * 12 + ["sparse"] * 4 + ["sym"] * 2 + ["tracer"] * 4 + ["sq"] + ["wrapped"] * 2))
        if domain == "sym":
            nb = min(nb, 2)
            # two symbols only for the expression / monomial-key formats (the library's Taylor expansion picks derivative axes)
            npert = 2 if ("fmts" not in profile and r.random() < 0.3) else 1
        if domain == "tracer":
            nb = min(nb, 3)
            npert = min(npert, 2)
        if domain == "sq":
            nb = 2
            npert = min(npert, 2)
        if domain == "wrapped":
            nb = max(nb, 2)
        sizes = [r.choice([1, 1, 2, 2, 3] if domain != "sym" else [1, 1, 2]) for _ in range(nb)]
        herm = r.random() < 0.65
        fmt = r.choice(profile.get("fmts", ["blocked"] * 10 + ["scalar_idx"] * 4 + ["scalar_vecs", "scalar_vecs", "dict", "dict", "list", "list", "nested", "nested", "symkeys"]))
        if domain == "sym":
            fmt = r.choice(["blocked", "blocked", "blocked", "sympy_expr", "symkeys"]) if "fmts" not in profile else "blocked"
            if npert == 2:
                fmt = r.choice(["sympy_expr", "sympy_expr", "symkeys"])
                sizes = [1] * nb if r.random() < 0.6 else [r.choice([1, 2]) for _ in range(nb)]
        if domain in ("tracer", "sq"):
            fmt = "blocked"
        if domain == "sq" and r.random() < 0.4:
            fmt = r.choice(["dict", "scalar_idx"])
        if domain == "wrapped":
            fmt = r.choice(["blocked", "blocked", "scalar_vecs"])
        if domain == "sparse" and fmt == "scalar_vecs":
            fmt = "scalar_idx"
        if domain == "dense" and r.random() < profile.get("p_implicit", 0.08):
            fmt = "implicit"  # sparse H_0, eigenvectors of the explicit blocks only, last block implicit
            nb = r.choice([2, 2, 3])
            npert = min(npert, 2)
            sizes = [r.choice([1, 2]) for _ in range(nb - 1)] + [r.choice([2, 3, 4])]
        box = BOX[npert]
        cand = [o for o in itertools.product(range(box + 1), repeat=npert) if 0 < sum(o) <= 3]
        if fmt == "list":
            terms = [tuple(int(k == a) for k in range(npert)) for a in range(npert)]
        elif fmt in ("symkeys", "sympy_expr"):
            # every perturbative symbol has to occur
            terms = [tuple(int(k == a) for k in range(npert)) for a in range(npert)]
            for o in r.sample(cand, min(len(cand), r.randint(0, 2))):
                if o not in terms:
                    terms.append(o)
            if npert == 2 and r.random() < 0.7:
                o = r.choice([(2, 1), (1, 2), (1, 1)])  # a term that is non-linear in both symbols
                if o not in terms:
                    terms.append(o)
        else:
            units = [o for o in cand if sum(o) == 1]
            terms = [r.choice(units)]
            for o in r.sample(cand, min(len(cand), r.randint(0, 3))):
                if o not in terms:
                    terms.append(o)
        w = {"herm": herm, "domain": domain, "sizes": sizes, "npert": npert, "terms": [list(o) for o in sorted(terms)],
             "vseed": r.randrange(1 << 30), "fmt": fmt, "real": r.random() < 0.25,
             "p_zero_block": r.choice([0.0, 0.0, 0.3, 0.6]), "deg": r.random() < 0.25,
             "complex_e": r.random() < 0.4, "derived": r.random() < profile.get("p_derived", 0.5),
             "internals": r.random() < profile.get("p_internals", 0.5), "h_data": r.random() < 0.3,
             "symbols": r.random() < 0.2, "dimnames": r.random() < 0.2, "interleave": r.random() < 0.4,
             "zero_level": bool(nb >= 2 and domain in ("dense", "sparse") and r.random() < 0.12),
             "p_sparse": r.choice([0.0, 0.3, 0.5, 0.7]) if domain == "sparse" else 0.0,
             "sparse_fmts": r.choice([["csr"], ["csr"], ["csc"], ["coo", "csr"], ["csr", "dia", "csc"]]) if domain == "sparse" else None,
             "mixed_dense": bool(domain == "sparse" and (r.random() < 0.35 or profile.get("force_mixed_fd"))),
             "atol": r.choice([None, None, None, 1e-10, 1e-14]), "stored_zeros": bool(domain == "sparse" and r.random() < 0.4),
             "view_input": r.random() < 0.15, "h_recur": r.random() < 0.15,
             "idx_type": r.choice(["array", "array", "tuple", "list"]), "sparse_vecs": r.random() < 0.3, "op_name": r.random() < 0.3, "sectors": bool(nb >= 3 and domain in ("dense", "sparse") and r.random() < 0.25),
             "cap": profile.get("max_total", {1: 4, 2: 3, 3: 2})[npert] if domain != "sym" else 3}
        if fmt == "scalar_vecs":
            w["real"] = False
        if r.random() < profile.get("p_illposed", 0.06) and nb >= 2 and domain != "sparse":
            w["illposed"] = r.randrange(1, nb)
        ncomp = r.choice(profile.get("ncomps", [1, 1, 2, 2, 3]))
        comps = []
        for c in range(ncomp):
            ch = bool(herm and r.random() < 0.75)
            spec = {"herm": ch, "fd": None, "solver": "default"}
            x = r.random()
            if x < 0.25:
                spec["fd"] = sorted(r.sample(range(nb), r.randint(1, nb)))
            elif x < 0.45 and domain != "sym":
                blocks = sorted(r.sample(range(nb), r.randint(1, nb)))
                spec["fd"] = {"blocks": blocks, "mseed": r.randrange(1 << 30), "bare": r.random() < 0.5}
            if spec["fd"] is None and domain != "sym":
                y = r.random()
                if y < 0.15 and nb > 1:
                    spec["solver"] = "custom"
                elif y < 0.25 and nb == 2 and ch:
                    spec["solver"] = "legacy"
            if profile.get("force_mixed_fd") and spec["fd"] is None:
                spec["fd"] = sorted(r.sample(range(nb), r.randint(1, nb)))
                spec["solver"] = "default"
            if domain == "sparse" and spec["fd"] is not None and r.random() < 0.5 and not profile.get("force_mixed_fd"):
                # the sparse solver branch divides by zero on kept pairs of a selected block (NaN results: a C01 matter);
                # such worlds are kept in half of the cases - NaN must be history independent, too
                spec["fd"] = None
            spec["d0_herm"] = r.random() < 0.5
            comps.append(spec)
        extra = {}
        if fmt == "nested" and r.random() < profile.get("p_nested_lazy", 0.4):
            extra["nested_lazy"] = True
        if fmt in ("scalar_idx", "scalar_vecs") and r.random() < 0.5:
            extra["tmp_args"] = True
        if fmt == "sympy_expr" and r.random() < 0.5:
            extra["fdiff_fn"] = True
        if fmt == "sympy_expr" and r.random() < 0.5:
            extra["infer_symbols"] = True
        if any(sp.get("solver") == "custom" for sp in comps) and r.random() < 0.5:
            extra["solver_sig"] = r.choice(["varargs", "varargs", "callable", "partial"])
        if ncomp >= 2 and r.random() < profile.get("p_chain", 0.2) and fmt != "scalar_vecs" or (ncomp >= 2 and profile.get("p_chain", 0.2) >= 1):
            comps[-1] = {"herm": comps[0]["herm"], "fd": sorted(range(nb)) if r.random() < 0.7 else None,
                         "solver": "default", "chain": 0, "d0_herm": False}
            if domain == "sparse" and r.random() < 0.5:
                comps[-1]["fd"] = None
        if fmt == "sympy_expr":
            w["p_zero_block"] = 0.0  # a vanishing term would remove its symbol from the expression
        if domain == "sym" and fmt != "blocked":
            for spec in comps:
                spec["fd"] = None  # symbolic input + subspace_indices + fully_diagonalize crashes in input handling (C14 matter)
                spec["solver"] = "default"
                spec.pop("chain", None)
            w.pop("illposed", None)
        if domain == "wrapped":
            # the library cannot look inside a caller-defined element type: the caller brings the solver, no masks
            w.pop("illposed", None)
            w["sectors"] = False
            w["zero_level"] = False
            w["h_data"] = False
            w["view_input"] = False
            for spec in comps:
                spec["fd"] = None
                spec["solver"] = "custom"
                spec.pop("chain", None)
        if domain == "sq":
            w["cap"] = 2
            w["sizes"] = [1, 1]
            w["herm"] = True
            w.pop("illposed", None)
            w["internals"] = False
            w["deg"] = False
            w["sq_modes"] = r.choice([1, 2])
            w["sq_stat"] = r.choice(["boson", "boson", "fermion"])
            x_sq = r.random()
            if x_sq < 0.3:
                # two states per block, every parameter couples another pair of states
                w["sq_two_level"] = True
                w["sizes"] = [2, 2]
                if w["npert"] == 2:
                    w["terms"] = [[0, 1], [1, 0]] + ([[1, 1]] if r.random() < 0.3 else [])
                w["sq_modes"] = 1
                w["sq_stat"] = "boson"
            elif x_sq < 0.55 and w["sq_stat"] == "boson":
                w["sq_same_drive"] = True
            for spec in comps:
                if w.get("sq_two_level"):
                    spec["fd"] = None
                if isinstance(spec["fd"], dict):
                    kinds = ["a"] + (["a2"] if w["sq_stat"] == "boson" else []) + (["ab"] if w["sq_modes"] == 2 else [])
                    spec["fd"] = {"blocks": spec["fd"]["blocks"], "sqmask": r.choice(kinds)} if spec["herm"] else None
                if w.get("sq_same_drive") and spec["herm"] and spec.get("chain") is None:
                    # selective diagonalisation with a different operator mask for each block
                    spec["fd"] = {"blocks": [0, 1], "sqmask": "a", "sqmask_by_block": {"1": "a2only"}}
                spec["solver"] = "default"
                if spec.get("chain") is not None:
                    spec["fd"] = None
        if domain == "tracer":
            w["cap"] = 3 if npert == 1 else 2
            w["sizes"] = [1] * nb
            w.pop("illposed", None)
            w["internals"] = r.random() < 0.7
            for spec in comps:
                if spec.get("chain") is not None:
                    spec["fd"] = None  # no masks in the free algebra (declared Hermiticity must stay structural)
                spec["fd"] = None
                spec["solver"] = "default"
                spec["two_block_optimized"] = bool(nb == 2 and r.random() < 0.5)
                spec["commuting_blocks"] = [r.random() < 0.6 for _ in range(nb)]
        if w.get("zero_level"):
            w["deg"] = False
            w["complex_e"] = False
        if fmt == "implicit":
            w["cap"] = 3 if npert == 1 else 2
            w["sectors"] = False
            w["zero_level"] = False
            w["pairs"] = bool(not herm and r.random() < 0.5)
            w.pop("illposed", None)
            w["complex_e"] = False
            for spec in comps:
                spec.pop("chain", None)
                spec["solver"] = "default"
                if isinstance(spec["fd"], dict):
                    spec["fd"]["blocks"] = [b for b in spec["fd"]["blocks"] if b < nb - 1] or [0]
                elif spec["fd"]:
                    spec["fd"] = [b for b in spec["fd"] if b < nb - 1] or None
                spec["kpm"] = bool(spec["herm"] and herm and r.random() < 0.3)
                spec["kpm_aux"] = r.random() < 0.5
                spec["eig_atol"] = r.random() < 0.3
                if spec["kpm"]:
                    spec["fd"] = None if isinstance(spec["fd"], dict) else spec["fd"]
        if tier == "thorough" and domain in ("dense", "sparse") and fmt != "implicit" and r.random() < 0.25:
            # deeper bounds: one more order per axis than the quick tier (and the table follows)
            w["box"] = {1: 6, 2: 3, 3: 2}[npert]
            w["cap"] = {1: 6, 2: 4, 3: 3}[npert]
        if fmt in ("scalar_vecs", "implicit") and w.get("atol") == 1e-14:
            w["atol"] = None  # rounding noise of the projection onto the caller's eigenvectors can exceed 1e-14: the library would reject H_0
        w["comps"] = comps
        extra.pop("solver_sig", None) if not any(sp.get("solver") == "custom" for sp in comps) else None
        w.update(extra)
        return w

    def gen_ops(self, r, world, tier, profile, cone=None):
        nb, npert = len(world["sizes"]), world["npert"]
        box = world_box(world)
        ncomp = len(world["comps"])
        cap = world_cap(world)
        orders = [n for n in itertools.product(range(box + 1), repeat=npert) if sum(n) <= cap]
        if cone is not None:
            orders = [n for n in orders if any(leq(n, m) for m in cone)]
        weights = [1.0 / (1 + sum(n)) ** 1.2 for n in orders]
        flavour = r.choice(["mixed", "mixed", "mixed", "scalars", "slices", "descending", "u_first", "hammer", "views", "alternate"])
        ops = [["build", c] for c in range(ncomp)]
        r.shuffle(ops)
        if r.random() < 0.3:
            ops = ops[: r.randint(0, len(ops))]  # the rest is defined on first use
        nops = r.randint(8, profile.get("max_ops", 40 if tier == "quick" else 120))
        hammer = None
        live_views = []
        for t in range(nops):
            c = r.randrange(ncomp) if flavour != "alternate" else t % ncomp
            names = comp_names(world, c)
            if world.get("internals") and r.random() < 0.5:
                names = names[:3]  # keep the three outputs well represented
            s = r.choice(names if flavour != "u_first" or t > nops // 2 else ["U", "U_inv"])
            i, j = r.randrange(nb), r.randrange(nb)
            n = r.choices(orders, weights)[0]
            if flavour == "descending":
                n = max(r.choices(orders, weights, k=3), key=sum)
            if flavour == "hammer":
                if hammer is None:
                    hammer = (c, s, i, j, max(r.choices(orders, weights, k=3), key=sum))
                if r.random() < 0.6:
                    c, s, i, j, n = hammer
            x = r.random()
            if flavour == "scalars" or x < 0.55:
                ops.append(["get", c, s, i, j, list(n)])
            elif x < 0.6:
                ops.append(["in", c, s, i, j, list(n)])
            elif flavour in ("views",) and x < 0.8 or x < 0.68:
                if live_views and r.random() < 0.7:
                    vid, vshape = r.choice(live_views)
                    item = [self._rand_comp(r, d) for d in vshape] + [self._rand_order(r, m, scalar=r.random() < 0.6) for m in n]
                    ops.append(["vget", vid, item])
                else:
                    item = [self._rand_comp(r, nb), self._rand_comp(r, nb)]
                    try:
                        vshape = np.empty((nb, nb))[to_py(item)].shape
                    except IndexError:
                        continue
                    ops.append(["view", c, s, item, len(ops)])
                    if len(live_views) < 4:
                        live_views.append((len(ops) - 1, vshape))
            elif npert >= 2 and r.random() < 0.35:
                # lists on several order axes select pairs, not the box: [m1, 0] x [0, m2] asks for (m1, 0) and (0, m2) only
                lists = [[m, 0] if k % 2 == 0 else [0, m] for k, m in enumerate(n)]
                if r.random() < 0.5:
                    lists = [list(reversed(x)) for x in lists]
                ops.append(["sl", c, s, [r.randrange(nb), r.randrange(nb)] + [{"l": x} for x in lists]])
            else:
                item = [self._rand_comp(r, nb), self._rand_comp(r, nb)] + [self._rand_order(r, m, scalar=False) for m in n]
                ops.append(["sl", c, s, item])
            if r.random() < 0.1 and ops[-1][0] in ("get", "sl", "vget"):
                ops.append(list(ops[-1]))  # repeated request
        if r.random() < profile.get("p_rebuild", 0.12) and len(ops) > 4:
            # the caller defines a computation again, from the same input objects, after having used it
            ops.insert(r.randint(len(ops) // 2, len(ops)), ["build", r.randrange(ncomp), "again"])
        if cone is None and r.random() < profile.get("p_peek", 0.15):
            for _ in range(r.choice([1, 2, 3])):
                n = r.choice(orders)
                ops.insert(r.randint(0, len(ops)), ["peek", r.randrange(nb), r.randrange(nb), list(n)])
        if cone is None and r.random() < profile.get("p_aux_shared", 0.2) and world["fmt"] in ("scalar_idx", "scalar_vecs") and nb >= 2:
            # often before the world's own computations are defined
            ops.insert(0 if r.random() < 0.5 else r.randint(0, len(ops)), ["aux_shared", r.randrange(8)])
        if r.random() < profile.get("p_aux", 0.12) and world["domain"] in ("dense", "sparse", "sym"):
            # the process also runs an unrelated computation with the same number of blocks in between
            ops.insert(r.randint(0, len(ops)), ["aux", r.choice(["implicit", "implicit", "explicit", "explicit_fd"]), r.randrange(1 << 30)])
        return ops

    @staticmethod
    def _rand_comp(r, d):
        if d == 0:
            return {"s": [None, None, None]}
        x = r.random()
        if x < 0.55:
            return r.randrange(-d, d)
        if x < 0.7:
            return {"l": [r.randrange(-d, d) for _ in range(r.choice([1, 2, 2]))]}
        return {"s": [r.choice([None, 0, r.randint(0, d)]), r.choice([None, d, r.randint(0, d)]), r.choice([None, 1, 2])]}

    @staticmethod
    def _rand_order(r, m, scalar):
        if scalar:
            return m
        x = r.random()
        if x < 0.4:
            return m
        if x < 0.6:
            lst = [r.randint(0, m), m]
            r.shuffle(lst)
            return {"l": lst}
        return {"s": [r.choice([None, 0, r.randint(0, m)]), m + 1, r.choice([None, 1, 2])]}

    # ------------------------------------------------------------------ shrinking
    def shrink_candidates(self, case):
        w = case["world"]
        for ops in dd_list(case["ops"]):
            yield self._rebase({**case, "ops": ops}, case["ops"], ops)
        faults = case.get("faults", [])
        for fl in dd_list(faults):
            yield {**case, "faults": fl}
        for k, f in enumerate(faults):
            if f.get("persist", 1) > 1:
                yield {**case, "faults": faults[:k] + [{**f, "persist": 1}] + faults[k + 1:]}
            if f["kind"] != "SimFault":
                yield {**case, "faults": faults[:k] + [{**f, "kind": "SimFault"}] + faults[k + 1:]}
        # world simplifications (operations that no longer apply are skipped by the executor)
        if len(w["comps"]) > 1:
            for c in reversed(range(len(w["comps"]))):
                if any(spec.get("chain") == c for spec in w["comps"]):
                    continue
                comps = [dict(s) for k, s in enumerate(w["comps"]) if k != c]
                for s in comps:
                    if s.get("chain") is not None and s["chain"] > c:
                        s["chain"] -= 1
                ops = []
                for op in case["ops"]:
                    if op[0] in ("build", "get", "in", "sl", "view"):
                        if op[1] == c:
                            continue
                        op = [op[0], op[1] - (op[1] > c), *op[2:]]
                    ops.append(op)
                if not case.get("faults"):
                    yield {**case, "world": {**w, "comps": comps}, "ops": ops}
        if w.get("derived"):
            yield {**case, "world": {**w, "derived": False}}
        for c, spec in enumerate(w["comps"]):
            if spec.get("fd") is not None and spec.get("chain") is None:
                comps = [dict(s) for s in w["comps"]]
                comps[c]["fd"] = None
                yield {**case, "world": {**w, "comps": comps}}
            if spec.get("solver") != "default":
                comps = [dict(s) for s in w["comps"]]
                comps[c]["solver"] = "default"
                yield {**case, "world": {**w, "comps": comps}}
        if len(w["terms"]) > 1 and w["fmt"] != "list":
            for k in range(len(w["terms"])):
                yield {**case, "world": {**w, "terms": w["terms"][:k] + w["terms"][k + 1:]}}
        if any(s > 1 for s in w["sizes"]) and w["fmt"] != "scalar_vecs":
            for k, s in enumerate(w["sizes"]):
                if s > 1:
                    sizes = list(w["sizes"])
                    sizes[k] = s - 1
                    yield {**case, "world": {**w, "sizes": sizes}}
        for flag in ("deg", "p_zero_block", "complex_e"):
            if w.get(flag):
                yield {**case, "world": {**w, flag: 0 if flag == "p_zero_block" else False}}
        if w["domain"] == "sparse":
            yield {**case, "world": {**w, "domain": "dense"}}
        if w["fmt"] not in ("blocked",) and w["domain"] != "sym":
            yield {**case, "world": {**w, "fmt": "blocked"}}

    @staticmethod
    def _rebase(case, old_ops, new_ops):
        """Re-base fault op indices after dropping operations (views carry their own labels)."""
        pos = {}
        it = iter(enumerate(new_ops))
        j, cur = next(it, (None, None))
        for i, op in enumerate(old_ops):
            if cur is not None and op is cur:
                pos[i] = j
                j, cur = next(it, (None, None))
        faults = [{**f, "op": pos[f["op"]]} for f in case.get("faults", []) if f["op"] in pos]
        return {**case, "faults": faults}

    def match_known(self, case, violation):
        if case.get("witness"):
            return case["witness"] if violation["class"] == "known-witness" else None
        return None

    def witnesses(self):
        return {fid: {"witness": fid} for fid in ['C10/sparse-duplicates-canonicalised-in-place', 'C11/in-flight-marker-forged-by-deepcopy']}
