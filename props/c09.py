"""C09 (sim-dsl): compiled mini-language series vs an independent reference interpreter,
under seeded request schedules over *all* series (including evicted internals).

Families of worlds
  G  generated well-founded programs in the documented grammar, exact tracer values
  T  the two shipped algorithms under free flag combinations, exact tracer values (no masks)
  S  the two shipped algorithms as block_diagonalize wires them (masks, real solver), exact sympy
"""
import hashlib
import itertools
import linecache

import numpy as np

from simkit import batch, refdsl
from simkit.batch import dd_list
from simkit.values import T, TracerOverflow, fingerprint, norm, same

MAXO = {1: 3, 2: 2}


def _to_py(item):
    out = []
    for c in item:
        if isinstance(c, dict):
            out.append(list(c["l"]) if "l" in c else slice(*c["s"]))
        else:
            out.append(c)
    return tuple(out)


def load_program(src):
    """Define the algorithm function from source text; inspect.getsource must be able to read it."""
    tag = hashlib.sha256(src.encode()).hexdigest()[:12]
    fname = f"<simgen-{tag}>"
    linecache.cache[fname] = (len(src), None, src.splitlines(True), fname)
    ns = {}
    exec(compile(src, fname, "exec"), ns)
    return next(v for k, v in ns.items() if k.startswith("prog_"))


class Gen:
    """Generator of well-founded programs in the documented grammar."""

    def __init__(self, r, features, inputs=None):
        self.r = r
        self.feat = features
        self.forced_inputs = inputs

    def program(self):
        r = self.r
        k = r.randint(2, 6)
        names = [f"S{i}" for i in range(k)]
        if r.random() < 0.4:
            # names that are string prefixes of one another (the shipped algorithms use U, U', U'†)
            for i in range(1, k):
                if r.random() < 0.4:
                    names[i] = names[i - 1] + r.choice(["'", "†", "_x"])
        pool_names = ["A", "B", "H", "K", "beta", "Delta", "H_t", "V0", "a_0"]
        first = r.choice(pool_names)
        second = r.choice([n for n in pool_names if n != first])
        inputs = self.forced_inputs or ([first, second] if r.random() < 0.6 else [first])
        if not self.forced_inputs and r.random() < 0.1:
            # two inputs whose names differ by the suffix that `start = "X_0"` appends, or that read like the built-in start tables
            inputs = r.choice([["a", "a_0"], ["H", "H_0"], ["a_0", "a"], ["zero", "identity"], ["H", "zero"]])
        start, marker = {}, {}
        for n in names:
            start[n] = r.choice([0, 0, 0, 0, 1, '"%s_0"' % inputs[0], '"%s_0"' % inputs[-1], None, None])
            marker[n] = r.choice([None, None, None, "hermitian", "antihermitian"])
        # adjoint twins:  Sd = S.adj  (gives structurally Hermitian products Sd @ S)
        twins = {}
        for idx in range(1, k):
            if r.random() < 0.2 and start[names[idx - 1]] in (0, None) and start[names[idx]] != 1:
                twins[names[idx]] = names[idx - 1]
                start[names[idx]] = start[names[idx - 1]]
                marker[names[idx]] = None
        # a series with start = 1 stands for "identity + higher orders": its zeroth order must be exactly the
        # identity, so it is defined (like U in the shipped algorithms) from earlier series that start at 0
        herm_struct = {}
        for idx in range(k):
            n = names[idx]
            if n not in twins and n not in twins.values() and r.random() < 0.15:
                pool = inputs + [m for m in names[:idx] if start[m] != 1]
                herm_struct[n] = r.choice(pool)
                start[n] = r.choice([0, None])
                marker[n] = None
        self.herm_struct = herm_struct
        loose = set()
        for idx, n in enumerate(names):
            if start[n] == 1 and r.random() < 0.3:
                loose.add(n)  # only ever requested directly: "identity + something" cannot enter sums or products
            elif start[n] == 1 and not any(start[m] == 0 for m in names[:idx]):
                start[n] = 0
        self.names, self.inputs, self.start, self.marker, self.twins = names, inputs, start, marker, twins
        self.terminal = {n for n in names if start[n] == 1}
        self.loose = loose
        self.zero_start = [n for n in names if start[n] == 0]
        self.products = {}
        lines = ["def prog_x():"]
        for idx, n in enumerate(names):
            lines.append(f'    with "{n}":')
            if start[n] is not None:
                lines.append(f"        start = {start[n]}")
            if n in loose:
                lines.append("        if offdiagonal:")
                lines.append(f"            {self.lit(inputs)}")
                if r.random() < 0.5:
                    lines.append(f"        {self.lit(inputs)}")
                continue
            if n in self.terminal:
                pool = [m for m in names[:idx] if start[m] == 0]
                e = self.lit(pool)
                for _ in range(r.choice([0, 0, 1])):
                    if r.random() < 0.5:
                        e += f" {r.choice(['+', '-'])} {self.lit(pool)}"
                    else:
                        fs = [r.choice(self.zero_start) for _ in range(r.choice([2, 3]))]
                        p = " @ ".join(fs)
                        self.products.setdefault(p, False)
                        e += f' {r.choice(["+", "-"])} "{p}"'
                lines.append(f"        {e}")
                continue
            if marker[n]:
                lines.append(f"        {marker[n]}")
            if n in twins:
                lines.append(f'        "{twins[n]}".adj')
                continue
            if n in herm_struct:
                lines.append(f'        "{herm_struct[n]}" + "{herm_struct[n]}".adj')
                continue
            conds = []
            for _ in range(r.choice([1, 1, 2, 3])):
                cond = r.choice([None, None, "diagonal", "offdiagonal", "lower" if (not marker[n] and r.random() < 0.3) else None])
                conds.append(cond)
            # a `lower` clause ends the definition: keep it last
            conds.sort(key=lambda c: c == "lower")
            for cond in conds:
                e = self.expr(idx, 0, diagonal=(cond == "diagonal"))
                if cond:
                    lines.append(f"        if {cond}:")
                    lines.append(f"            {e}")
                else:
                    lines.append(f"        {e}")
        outs = r.sample(names, r.randint(1, min(3, k)))
        if r.random() < 0.3:
            # a once-used intermediate with start data and its single, start-less consumer (eviction at every order)
            sp, sq = f"S{k}", f"S{k + 1}"
            st = r.choice([0, '"%s_0"' % inputs[0], '"%s_0"' % inputs[-1]])
            sq_start = r.choice([None, None, 1])  # a `start = 1` reader evaluates its off-diagonal zeroth order too
            lines += [f'    with "{sp}":', f"        start = {st}", f"        {self.expr(k, 1, False)}",
                      f'    with "{sq}":'] + ([f"        start = {sq_start}"] if sq_start else []) + [
                      f'        "{sp}"' + (f" + {self.lit(inputs)}" if r.random() < 0.5 else "")]
            start[sp], start[sq] = st, sq_start
            names = names + [sp, sq]
            self.names = names
        tight = [n for n in self.terminal if n not in loose]
        if tight and r.random() < 0.4:
            # unitary-like pair:  Td = T.adj with T = 1 + ...;  "Td @ T" is Hermitian, has `one` in both factors and is
            # only ever requested directly (identity + value cannot enter a sum)
            t = r.choice(sorted(tight))
            td = f"S{len(names)}"
            lines += [f'    with "{td}":', "        start = 1", f'        "{t}".adj']
            start[td] = 1
            names = names + [td]
            self.names = names
            self.products[f"{td} @ {t}"] = r.random() < 0.8
        for p, herm in sorted(self.products.items()):
            lines.append(f'    with "{p}":')
            lines.append("        hermitian" if herm else "        pass")
        if self.products and r.random() < 0.15:
            outs = outs + [r.choice(sorted(self.products))]  # a declared product among the outputs
        lines.append("    return " + ", ".join('"%s"' % o for o in outs) + ("," if len(outs) == 1 and r.random() < 0.0 else ""))
        return "\n".join(lines) + "\n", names, sorted(self.products), inputs

    def lit(self, pool):
        return '"%s"' % self.r.choice(pool)

    def product(self, idx):
        r = self.r
        nf = r.choice([2, 2, 2, 3, 4])
        # Hermitian product of an adjoint twin pair
        pairs = [(d, s) for d, s in self.twins.items()]
        if pairs and r.random() < 0.35:
            d, s = r.choice(pairs)
            ok_now = self.names.index(d) < idx or (self.start[d] == 0 and self.start[s] == 0)
            if ok_now:
                ms = [m for m in self.herm_struct if self.names.index(m) < idx or
                      (self.start[m] == 0 and self.start[d] == 0 and self.start[s] == 0)]
                if ms and r.random() < 0.5:
                    m = r.choice(ms)
                    p = f"{d} @ {m} @ {s}"  # S† M S with M = X + X†: Hermitian by construction
                    self.products[p] = self.products.get(p, False) or r.random() < 0.8
                    return p, [d, m, s]
                p = f"{d} @ {s}"
                self.products[p] = self.products.get(p, False) or r.random() < 0.8
                return p, [d, s]
        if self.zero_start and r.random() < 0.5:
            fs = [r.choice(self.zero_start) for _ in range(nf)]  # recurrent: may refer to itself / later series
        else:
            pool = [n for n in self.inputs + self.names[:idx] if n not in self.loose]
            fs = [r.choice(pool) for _ in range(nf)]
            if all(f in self.terminal for f in fs):
                fs[0] = r.choice(self.inputs)
        p = " @ ".join(fs)
        self.products.setdefault(p, False)
        return p, fs

    def term(self, idx, depth, diagonal, nofn=False):
        r = self.r
        pool = [n for n in self.inputs + self.names[:idx] if n not in self.terminal]
        x = r.random()
        if x < 0.03 and self.feat.get("elementwise_product", True):
            return "%s * %s" % (self.lit(pool), self.lit(pool))  # the element-wise product of two blocks (absent if either is)
        if x < 0.32:
            t = self.lit(pool)
            return t + ".adj" if r.random() < 0.3 else t
        if x < 0.6:
            p, fs = self.product(idx)
            t = '"%s"' % p
            if r.random() < 0.3 and not any(f in self.terminal for f in fs):
                t += ".adj"
            return t
        fn_ok = not nofn and (self.feat.get("fn_under_diagonal", True) or not diagonal)
        if x < 0.66 and fn_ok:
            return "%s(%s)" % (r.choice(["f", "f", "g"]), self.lit(pool))
        if x < 0.69 and fn_ok:
            # a scope function with two arguments, the second one a series literal: m("A", "C"), m(expr, "C"), m(2, "C")
            r2 = r.random()
            arg = self.lit(pool) if r2 < 0.5 or depth >= 2 else (str(r.choice([2, 3])) if r2 < 0.65 else
                                                                  self.expr(idx, depth + 1, diagonal, nofn=not self.feat.get("nested_calls", True)))
            return "m(%s, %s)" % (arg, self.lit(pool))
        if x < 0.72 and fn_ok:
            # a scope function with a numeric literal next to the series / expression argument
            arg = self.lit(pool) if r.random() < 0.5 or depth >= 2 else self.expr(idx, depth + 1, diagonal, nofn=not self.feat.get("nested_calls", True))
            return "h(%s, %d)" % (arg, r.choice([2, 3]))
        if x < 0.86 and depth < 2 and fn_ok:
            inner = self.expr(idx, depth + 1, diagonal, nofn=not self.feat.get("nested_calls", True))
            return "f(%s)" % inner
        if x < 0.91:
            return "(zero if flag else %s)" % self.lit(pool)
        if x < 0.96 and depth < 2:
            return "(%s)" % self.expr(idx, depth + 1, diagonal, nofn)
        return "(%s if flags[index[0]] else %s)" % (self.lit(pool), self.lit(pool))

    def expr(self, idx, depth, diagonal, nofn=False):
        r = self.r
        e = self.term(idx, depth, diagonal, nofn)
        for _ in range(r.choice([0, 1, 1, 2])):
            e = f"{e} {r.choice(['+', '-'])} {self.term(idx, depth, diagonal, nofn)}"
        x = r.random()
        if x < 0.3:
            e = f"({e}) / {r.choice([2, -2, 3])}"
            if r.random() < 0.25 and self.feat.get("nested_division", True):
                e = f"({e}) / {r.choice([2, 5])}"
            elif r.random() < 0.25:
                e = f"{e} * {r.choice([2, 3])}"  # a quotient times an integer literal
                if r.random() < 0.5:
                    e = f"({e}) / {r.choice([2, 5])}"
        elif x < 0.36:
            e = f"({e}) * {r.choice([2, 3, -2])}"
        elif x < 0.40:
            e = f"{r.choice([2, 3])} * ({e})"  # the literal on the left
        x2 = r.random()
        if x2 < 0.2:
            e = f"-({e})"
        elif x2 < 0.25:
            e = f"+({e})"
        return e


class Prop:
    id = "C09"
    level = "exploration"
    run_timeout = 120
    tiers = {"quick": {"runs": 6000, "budget_s": 42, "chunk": 6},
             "thorough": {"runs": 600000, "budget_s": 900, "chunk": 20}}
    rule = ("case = program (G: generated well-founded program in the documented grammar; T: shipped `main`/`nonhermitian` "
            "under free flag combinations; S: shipped algorithms as wired by block_diagonalize with masks and the real "
            "solver) + exact inputs (tracer algebra / sympy rationals) + seeded request schedule over the elements of *all* "
            "series, products and inputs; every returned element is compared with an independent reference interpreter of "
            "the same definition.  non-trivial = at least 10 compared elements, at least 3 distinct series names, at least "
            "one non-zero non-sentinel value, and a request for a non-output series after an output was evaluated; distinct = "
            "distinct sha256 of the event log")
    probes = ["family_G", "family_T", "family_S", "compared", "value_nonzero", "internal_after_output", "product_requested",
              "hermitian_product", "marker_hermitian", "marker_antihermitian", "clause_diagonal", "clause_offdiagonal",
              "clause_lower", "fn_call", "fn_series_arg", "division", "ifexp", "start_one", "start_input", "start_none",
              "two_block_optimized", "commuting_false", "offdiag_present", "program_rejected", "prelude_program", "hermitian_product_3", "linear_operator_mode", "family_F", "flags_clause_checked", "slice_request", "domain_float", "linear_operator_mode_generated", "eviction_observed", "series_dict_reused", "earlier_computation_rechecked", "flags_two_block_without_commuting",
              "recompute_after_eviction"]
    components_real = ["pymablock.algorithm_parsing (compiler, series_computation), pymablock.series, pymablock.algorithms, "
                       "block_diagonalize wiring of scope (family S)"]
    components_stub = ["input series eval callbacks", "scope functions f/g/solve_sylvester as opaque exact atoms (G, T)",
                       "tracer element type", "reference interpreter (oracle)"]
    assumptions = ["the reference interpreter reads the same function source; a change to algorithms.py changes both sides alike",
                   "programs outside the documented grammar are never generated; ill-founded programs (reference detects a cycle) are skipped and counted",
                   "declared-Hermitian products are Hermitian in the value domain by construction (adjoint twin pairs; U'†U' without masks in the tracer algebra; exact arithmetic with masks)"]

    features = {"fn_under_diagonal": True, "nested_calls": True, "nested_division": True}

    # ------------------------------------------------------------------ generation
    def generate(self, r, tier, idx):
        x = r.random()
        if x < 0.62:
            return self.gen_G(r, tier)
        if x < 0.88:
            return self.gen_T(r, tier)
        if x < 0.97:
            return self.gen_S(r, tier)
        return self.gen_F(r, tier)

    def _schedule(self, r, names, outputs, nb, ninf, cap, tier):
        orders = [n for n in itertools.product(range(MAXO[ninf] + 1), repeat=ninf) if sum(n) <= cap]
        flavour = r.choice(["random", "random", "outputs_first", "internals_first", "descending", "one_series"])
        nreq = r.randint(15, 60 if tier == "quick" else 150)
        internals = [n for n in names if n not in outputs]
        ops = []
        focus = r.choice(names)
        for t in range(nreq):
            if flavour == "outputs_first":
                pool = outputs if t < nreq // 3 else names
            elif flavour == "internals_first":
                pool = (internals or names) if t < nreq // 2 else names
            elif flavour == "one_series" and r.random() < 0.6:
                pool = [focus]
            else:
                pool = names
            name = r.choice(pool)
            n = r.choice(orders) if r.random() < 0.8 else orders[0]
            if flavour == "descending":
                n = max((r.choice(orders) for _ in range(3)), key=sum)
            if r.random() < 0.15:
                # a multi-element request: blocks by int/slice/list, orders by slices up to n or unsorted lists
                comp = lambda d: r.choice([r.randrange(d), {"s": [None, None, None]}, {"l": [r.randrange(d) for _ in range(2)]}])  # noqa: E731
                item = [comp(nb), comp(nb)]
                lst = r.random() < 0.3
                for m in n:
                    item.append({"l": [m, r.randint(0, m)]} if lst else r.choice([m, {"s": [r.choice([None, 0, r.randint(0, m)]), m + 1, None]}]))
                ops.append([name, "sl", item])
            else:
                ops.append([name, r.randrange(nb), r.randrange(nb), list(n)])
        return ops

    def gen_G(self, r, tier):
        g = Gen(r, dict(self.features))
        src, names, products, inputs = g.program()
        nb = r.choice([1, 2, 2, 3])
        ninf = r.choice([1, 2])
        cap = 3 if ninf == 1 else 2
        outs = [ln for ln in src.splitlines() if ln.strip().startswith("return")][0]
        outputs = [s.strip().strip('"') for s in outs.replace("return", "").split(",") if s.strip()]
        case = {"family": "G", "src": src, "nb": nb, "ninf": ninf, "cap": cap,
                "domain": "float" if r.random() < 0.3 else "tracer", "sizes": [r.choice([1, 2]) for _ in range(3)],
                # the last diagonal block is kept as a LinearOperator; only for programs whose declared products have two factors
                # (like the shipped algorithms): an intermediate of a longer plain product would add operators and matrices
                "linop_mask": True if (r.random() < 0.5 and all(p.count("@") == 1 for p in products) and '" * "' not in src and "+(" not in src) else None,  # (SciPy operators know neither * between operators nor unary plus)
                "scaled_op": r.random() < 0.5,
                "inputs": {n: {"pz": r.choice([0.0, 0.2, 0.5]), "zero0": r.random() < 0.3, "iseed": r.randrange(1 << 30)} for n in inputs},
                "flag": r.random() < 0.5, "flags": [r.random() < 0.5 for _ in range(nb)]}
        case["ops"] = self._schedule(r, inputs + names + products, outputs, nb, ninf, cap, tier)
        if r.random() < 0.3:
            # the same process compiled another algorithm of the same name before (notebook / REPL re-definition)
            g2 = Gen(r, dict(self.features), inputs=inputs)
            src2, names2, products2, _ = g2.program()
            nb2 = r.choice([nb, nb, 1, 2, 3])  # the earlier computation may have another block structure
            case["prelude"] = {"src": src2, "nb": nb2,
                               "ops": self._schedule(r, inputs + names2 + products2, names2[-1:], nb2, ninf, cap, tier)[:8]}
            x = r.random()
            if x < 0.5:
                # the caller keeps one series dictionary and runs the computation again after replacing the inputs
                # (series_computation adds its series to the dictionary it is given and returns it)
                case["prelude"].update(nb=nb, shared_series=True, iseed_shift=r.randrange(1, 1 << 20), pass_returned=r.random() < 0.5)
                if x < 0.3:  # the very same algorithm, other input values
                    case["prelude"].update(src=src, ops=self._schedule(r, inputs + names + products, outputs, nb, ninf, cap, tier)[:8])
                # requests on the first computation made after the second one has been built
                pn = (names + products) if case["prelude"]["src"] == src else (names2 + products2)
                case["prelude"]["post_ops"] = self._schedule(r, inputs + pn, pn[-1:], nb, ninf, cap, tier)[:10]
        return case

    def gen_T(self, r, tier):
        herm = r.random() < 0.6
        nb = r.choice([1, 2, 2, 2, 3])
        ninf = r.choice([1, 1, 2])
        cap = 3 if ninf == 1 else 2
        case = {"family": "T", "algo": "main" if herm else "nonhermitian", "nb": nb, "ninf": ninf, "cap": cap,
                "pz": r.choice([0.0, 0.3, 0.6]), "iseed": r.randrange(1 << 30),
                "two_block_optimized": bool(nb == 2 and r.random() < 0.5),
                "commuting_blocks": [r.random() < 0.6 for _ in range(nb)]}
        from props.graph import internal_names

        names = [n[4:] for n in internal_names(herm)] + ["H_tilde", "U", "U†"]
        case["ops"] = self._schedule(r, names, ["H_tilde", "U", "U†"], nb, ninf, cap, tier)
        return case

    def gen_S(self, r, tier):
        from props.c10 import PROP as C10
        from props.graph import internal_names

        implicit = r.random() < 0.3
        for _ in range(20):
            if implicit:
                # linear-operator mode: last block implicit, float values, compared through the action on the identity
                w = C10.gen_world(r, tier, {"domains": ["dense"], "p_implicit": 1.0, "ncomps": [1], "p_chain": 0.0,
                                           "p_illposed": 0.0, "p_derived": 0.0})
                if w["fmt"] == "implicit":
                    # real worlds only: ComplementProjector's rmatvec applies the transpose instead of the adjoint
                    # (a C17 matter), which array @ operator products of the reference would run into for complex bases
                    w["real"] = True
                    w["complex_e"] = False
                    break
            else:
                w = C10.gen_world(r, tier, {"domains": ["sym"], "ncomps": [1], "p_chain": 0.0, "p_illposed": 0.0, "p_derived": 0.0})
                if w["domain"] == "sym":
                    break
        w["internals"] = True
        w["derived"] = False
        # symbolic masks are numpy arrays as well; allow them here
        spec = w["comps"][0]
        nb = len(w["sizes"])
        if r.random() < 0.5 and spec["fd"] is None and not implicit:
            blocks = sorted(r.sample(range(nb), r.randint(1, nb)))
            spec["fd"] = {"blocks": blocks, "mseed": r.randrange(1 << 30)} if r.random() < 0.6 else blocks
        herm = bool(spec["herm"])
        names = [n[4:] for n in internal_names(herm)] + ["H_tilde", "U", "U†"]
        ninf = w["npert"]
        cap = min(w.get("cap", 3), 3 if ninf == 1 else 2)
        case = {"family": "S", "world": w, "nb": nb, "ninf": ninf, "cap": cap}
        case["ops"] = self._schedule(r, names, ["H_tilde", "U", "U†"], nb, ninf, cap, "quick")[:40]
        return case

    def gen_F(self, r, tier):
        """Side clause: the two-block and commuting-block flags never change a value (exact arithmetic, no masks)."""
        from props.c10 import PROP as C10

        for _ in range(20):
            w = C10.gen_world(r, tier, {"domains": ["sym"], "ncomps": [1], "p_chain": 0.0, "p_illposed": 0.0, "p_derived": 0.0})
            if w["domain"] == "sym" and w["herm"]:
                break
        w["herm"] = True
        w["comps"][0].update(herm=True, fd=None, solver="default")
        w["internals"] = False
        w["derived"] = False
        w["deg"] = False
        nb = len(w["sizes"])
        ninf = w["npert"]
        cap = 3 if ninf == 1 else 2
        ops = self._schedule(r, ["H_tilde", "U", "U†"], ["H_tilde", "U", "U†"], nb, ninf, cap, "quick")[:25]
        # flag combinations to compare with: every flag the library sets may be kept or withdrawn (a withdrawn promise is
        # always legal); the all-withdrawn combination is always among them
        variants = [[False, [False] * nb]]
        for _ in range(r.choice([0, 1, 2])):
            variants.append([r.random() < 0.6, [r.random() < 0.5 for _ in range(nb)]])
        return {"family": "F", "world": w, "nb": nb, "ninf": ninf, "cap": cap, "ops": ops, "variants": variants}

    def _execute_F(self, case):
        from pymablock import algorithms
        from pymablock.algorithm_parsing import series_computation
        from props import graph

        w = case["world"]
        nb = case["nb"]
        events, counters, stats = [], {"family_F": 1}, {}
        sim = graph.Sim(w, graph.Env(active=False))
        sim.build(0)
        gl = sim.comps[0]["out"][0].eval.__globals__
        optimised = gl["series"]
        plains = []
        for keep_tb, keep_cb in case.get("variants") or [[False, [False] * nb]]:
            sim2 = graph.Sim(w, graph.Env(active=False))  # fresh input objects for every twin
            sim2.build(0)
            H2 = sim2.comps[0]["out"][0].eval.__globals__["series"]["H"]
            flags = {"two_block_optimized": bool(gl["two_block_optimized"] and keep_tb),
                     "commuting_blocks": [bool(a and b) for a, b in zip(gl["commuting_blocks"], keep_cb)]}
            scope = {"solve_sylvester": gl["solve_sylvester"], **flags}
            for k in ("diag", "offdiag"):  # a single block is fully diagonalised by default
                if gl.get(k) is not None:
                    scope[k] = gl[k]
            plain, _ = series_computation({"H": H2}, algorithm=algorithms.main, scope=scope, operator=lambda a, b: a @ b)
            plains.append((flags, plain))
            if flags["two_block_optimized"] and not all(flags["commuting_blocks"]):
                counters["flags_two_block_without_commuting"] = 1
        violation = None
        compared = 0
        for opi, op in enumerate(case["ops"]):
            if op[1] == "sl":
                continue
            name, i, j, n = op
            if i >= nb or j >= nb or sum(n) > case["cap"]:
                continue
            index = (i, j, *n)
            a = optimised[name][index]
            na = norm(a)
            # an explicit zero matrix and the absent sentinel denote the same value
            za = na[0] == "zero" or (na[0] == "sym" and all(x == 0 for x in na[2]))
            for flags, plain in plains:
                b = plain[name][index]
                nb_ = norm(b)
                zb = nb_[0] == "zero" or (nb_[0] == "sym" and all(x == 0 for x in nb_[2]))
                if not ((za and zb) or same(na, nb_, stats)):
                    violation = {"class": "flags-change-value", "detail": f"op#{opi} {name}[{index}]: with two_block_optimized={gl['two_block_optimized']}, commuting_blocks={gl['commuting_blocks']} -> {self._show(a)}; with two_block_optimized={flags['two_block_optimized']}, commuting_blocks={flags['commuting_blocks']} -> {self._show(b)}", "info": {}}
                    break
            if violation:
                break
            compared += 1
            events.append(("ret", opi, name, index, fingerprint(norm(a))))
        counters["compared"] = compared
        counters["flags_clause_checked"] = compared
        return self._out(violation, events, counters, compared >= 10)

    # ------------------------------------------------------------------ execution
    def execute(self, case):
        if case.get("witness"):
            from simkit import witness

            return witness.run(case["witness"])
        if case["family"] == "F":
            return self._execute_F(case)
        pre = case.get("prelude")
        out0 = None
        if pre and case["family"] == "G":
            sub = {k: v for k, v in case.items() if k != "prelude"}
            sub.update(src=pre["src"], ops=pre["ops"], linop_mask=None)
            if pre.get("nb"):
                sub.update(nb=pre["nb"], flags=[bool(k % 2) for k in range(pre["nb"])])
            shared = {}  # the caller reuses one scope dictionary for both computations
            shared_series = {} if pre.get("shared_series") else None  # ... and possibly one series dictionary
            if pre.get("shared_series"):
                sub["inputs"] = {n: {**sp, "iseed": sp["iseed"] + pre["iseed_shift"], "tag": "~"} for n, sp in case["inputs"].items()}
            out0 = self._execute_one(sub, clear=False, shared_scope=shared, shared_series=shared_series)
            if out0["violation"]:
                return out0
            if shared_series is not None and pre.get("pass_returned") and out0.get("_series") is not None:
                # the next computation starts from what the first one returned (copied: the returned dictionary belongs to
                # the first computation, the caller does not edit it)
                shared_series = dict(out0["_series"])
            out = self._execute_one(case, clear=True, shared_scope=shared, shared_series=shared_series)
            if shared_series is not None and out["violation"] is None and out0.get("_recheck"):
                v = out0["_recheck"](pre.get("post_ops") or [])
                out["counters"]["earlier_computation_rechecked"] = 1
                if v:
                    out["violation"] = v
        else:
            out = self._execute_one(case, clear=True)
        for o_ in (out, out0 or {}):
            o_.pop("_recheck", None)
            o_.pop("_series", None)
        if out0 is not None:
            out["counters"]["prelude_program"] = 1
            out["events"] += out0["events"]
            out["digest"] = hashlib.sha256((out0["digest"] + out["digest"]).encode()).hexdigest()
        return out

    def _execute_one(self, case, clear=True, shared_scope=None, shared_series=None):
        from pymablock import algorithms
        from pymablock.algorithm_parsing import _parse_algorithm, series_computation
        from pymablock.series import PENDING, BlockSeries, one, zero

        fam = case["family"]
        nb, ninf = case["nb"], case["ninf"]
        T.work, T.budget = 0, 400000
        events = []
        counters = {"family_" + fam: 1}
        stats = {}

        def bump(k, n=1):
            counters[k] = counters.get(k, 0) + n

        matmul = lambda a, b: a @ b  # noqa: E731
        # ---------------- build the compiled computation and the reference
        if fam in ("G", "T"):
            if fam == "G":
                src = case["src"]
                algo = load_program(src)
                input_names = list(case["inputs"])
                flag = case["flag"]

                floats = case.get("domain") == "float"
                if floats:
                    bump("domain_float")

                def dense(v):
                    from scipy.sparse.linalg import LinearOperator

                    return v @ np.eye(v.shape[1]) if isinstance(v, LinearOperator) else v

                def aslinop(a):
                    from scipy.sparse.linalg import aslinearoperator

                    return aslinearoperator(a)

                def f(x, index):
                    v = x[index] if isinstance(x, (BlockSeries, refdsl.Handle)) else x
                    if v is zero:
                        return zero
                    if floats:  # mutable matrix values: a non-linear elementwise map, never in place
                        if v is one:
                            return zero
                        d_ = dense(v)
                        out = d_ / (1.0 + np.abs(d_)) * (0.7 + 0.2j)
                        return aslinop(out) if d_ is not v else out  # operators in, operators out
                    if v is one:
                        return T.gen("f(one)")
                    return T.fun("f", v, int(index[0]), int(index[1]))

                def g(x, index):
                    tr = (index[1], index[0], *index[2:])
                    series_arg = isinstance(x, (BlockSeries, refdsl.Handle))
                    v = x[tr] if series_arg else x
                    if v is zero or v is one:
                        return zero
                    if floats:
                        d_ = dense(v)
                        out = (d_.conj().T if series_arg else d_) * 0.5
                        return aslinop(out) if d_ is not v else out
                    return T.fun("g", v)

                def h(x, k, index, f=f):
                    v = f(x, index)
                    return zero if v is zero else v * int(k)

                def m(x, y, index, f=f, g=g):
                    # the second argument is always a series: its transposed element enters like in g
                    a = zero if isinstance(x, (int, float)) else f(x, index)
                    b = g(y, index)
                    if isinstance(x, (int, float)) and b is not zero:
                        b = b * int(x)
                    if a is zero:
                        return b
                    if b is zero:
                        return a
                    return refdsl.Ref._add(a, b)

                scope = {"f": f, "g": g, "h": h, "m": m, "flag": flag, "flags": list(case["flags"])}
                specs = case["inputs"]
                if floats and case.get("linop_mask"):
                    # linear-operator mode for some blocks (what the implicit method uses), with a caller-supplied product
                    mask = np.zeros((nb, nb), dtype=bool)
                    mask[-1, -1] = True
                    scope["use_linear_operator"] = mask
                    bump("linear_operator_mode_generated")
                if floats and case.get("scaled_op"):
                    matmul = lambda a, b: 2.0 * (a @ b)  # noqa: E731 - a product that is not plain matmul
            else:
                algo = getattr(algorithms, case["algo"])
                src = None
                input_names = ["H"]
                specs = {"H": {"pz": case["pz"], "zero0": False, "iseed": case["iseed"]}}

                def solve_sylvester(Y, index):
                    if Y is zero:
                        return zero
                    return T.fun("S", Y, int(index[0]), int(index[1]))

                scope = {"solve_sylvester": solve_sylvester, "two_block_optimized": case["two_block_optimized"],
                         "commuting_blocks": list(case["commuting_blocks"])}
                if case["two_block_optimized"]:
                    bump("two_block_optimized")
                if not all(case["commuting_blocks"]):
                    bump("commuting_false")
            tables = {}
            for name in input_names:
                tables[name] = self._input_table(name, specs[name], nb, ninf, hermitian=(fam == "T" and case["algo"] == "main"),
                                                 block_diag0=(fam == "T"), zero=zero,
                                                 sizes=case.get("sizes") if case.get("domain") == "float" else None)
            compiled_inputs = {}
            for name in input_names:
                tab = tables[name]
                known = None
                if specs[name].get("zero0") and specs[name].get("iseed", 0) % 2:
                    # the caller declares the absent zeroth order up front (data=) instead of through eval
                    known = {k: v for k, v in tab.items() if not any(k[2:]) and v is zero}
                compiled_inputs[name] = BlockSeries(eval=(lambda *index, tab=tab: tab.get(tuple(int(i) for i in index), zero)),
                                                    data=known, shape=(nb, nb), n_infinite=ninf, name=name)
            try:
                if shared_scope is not None:
                    shared_scope.update(scope)
                    scope_arg = shared_scope
                else:
                    scope_arg = dict(scope)
                if shared_series is not None:
                    shared_series.update(compiled_inputs)
                    series_arg = shared_series
                    if len(shared_series) > len(compiled_inputs):
                        bump("series_dict_reused")
                else:
                    series_arg = dict(compiled_inputs)
                series, linop = series_computation(series_arg, algorithm=algo, scope=scope_arg, operator=matmul)
            except Exception as e:
                x = e
                while x is not None:
                    if isinstance(x, (TracerOverflow, RecursionError)):
                        # a re-used series dictionary makes series_computation evaluate the zeroth order of every series in
                        # it; beyond the tracer's work budget the program is dropped, like any other over-budget program
                        bump("program_rejected")
                        return self._out(None, events, counters, False)
                    x = x.__cause__ or x.__context__
                return self._out({"class": "compile-error", "detail": f"series_computation raised {type(e).__name__}: {e}"},
                                 events, counters, False)
            ref = refdsl.Ref(algo, {n: (lambda index, tab=tables[n]: tab.get(index, zero)) for n in input_names},
                             (nb, nb), ninf, scope, matmul, source=src)
            outputs = self._outputs(algo, src)
        else:
            from props import graph

            w = case["world"]
            env = graph.Env(active=False)
            sim = graph.Sim(w, env)
            try:
                sim.build(0)
            except Exception as e:
                return self._out({"class": "compile-error", "detail": f"block_diagonalize raised {type(e).__name__}: {e}"},
                                 events, counters, False)
            gl = sim.comps[0]["out"][0].eval.__globals__
            series = gl["series"]
            herm = bool(w["comps"][0]["herm"])
            algo = algorithms.main if herm else algorithms.nonhermitian
            scope = {k: gl[k] for k in ("solve_sylvester", "two_block_optimized", "commuting_blocks", "diag", "offdiag") if k in gl}
            # the library's diag/offdiag accept a series or a value; the reference hands them values
            Hc = series["H"]
            ref = refdsl.Ref(algo, {"H": lambda index: Hc[index]}, (nb, nb), ninf, scope, matmul)
            outputs = ["H_tilde", "U", "U†"]
            if gl.get("offdiag") is not None:
                bump("offdiag_present")
            if w["fmt"] == "implicit":
                bump("linear_operator_mode")
            if gl.get("two_block_optimized"):
                bump("two_block_optimized")
            if not all(gl.get("commuting_blocks", [True])):
                bump("commuting_false")
        if fam == "G":
            self._feature_probes(src, bump)

        # ---------------- run the schedule
        violation = None

        def fail(cls, detail, info=None):
            nonlocal violation
            if violation is None:
                violation = {"class": cls, "detail": detail, "info": info or {}}

        seen_names = set()
        states = []
        output_done = False
        compared = 0
        nonzero = 0
        internal_after = False
        hist = {}
        rejected = False
        ids = np.arange(nb * nb * (MAXO[ninf] + 1) ** ninf).reshape((nb, nb) + (MAXO[ninf] + 1,) * ninf)
        cells_of = list(np.ndindex(*ids.shape))
        for opi, op in enumerate(case["ops"]):
            if violation or rejected:
                break
            name = op[0]
            if name not in series:
                continue
            if op[1] == "sl":
                request = _to_py(op[2])
                try:
                    sel = ids[request]
                except IndexError:
                    continue
                cells = [tuple(int(x) for x in cells_of[int(k)]) for k in np.asarray(sel).ravel().tolist()]
                bump("slice_request")
            else:
                _, i, j, n = op
                if i >= nb or j >= nb:
                    continue
                request = (i, j, *n)
                sel = None
                cells = [request]
            if not cells or any(sum(c[2:]) > case["cap"] for c in cells):
                continue
            if fam == "G" and case.get("domain") == "float" and case.get("linop_mask") and " @ " in name and any(
                    c[0] == nb - 1 and c[1] == nb - 1 for c in cells):
                continue  # operator + matrix sums are not defined: the compiled code reads the operator twin of a product there
            index = cells[0]
            try:
                wants = [ref.value(name, c) for c in cells]
                want = wants[0]
                ref_exc = None
            except refdsl.IllFounded:
                rejected = True
                bump("program_rejected")
                break
            except (RecursionError, TracerOverflow):
                rejected = True
                bump("program_rejected")
                break
            except Exception as e:
                ref_exc = e
            try:
                got = series[name][request]
                got_exc = None
            except Exception as e:
                got_exc = e
                root = e
                while root.__cause__ is not None:
                    root = root.__cause__
                if isinstance(root, (TracerOverflow, RecursionError)):
                    rejected = True
                    bump("program_rejected")
                    break
            desc = f"op#{opi} {name}[{request}]"
            if ref_exc is not None:
                if got_exc is None:
                    bump("ref_raises_only")
                else:
                    bump("both_raise")
                events.append(("raise", opi))
                continue
            if got_exc is not None:
                cause = got_exc
                while cause.__cause__ is not None:
                    cause = cause.__cause__
                fail("compiled-raises-" + type(cause).__name__,
                     f"{desc}: the reference interpreter gives {self._show(want)}, the compiled series raised {type(cause).__name__}: {cause}",
                     {"name": name, "exc": type(cause).__name__, "msg": str(cause)})
                break
            if sel is not None and isinstance(sel, np.ndarray):
                if not isinstance(got, np.ma.MaskedArray) or got.shape != sel.shape:
                    fail("array-shape", f"{desc}: result {type(got).__name__} of shape {getattr(got, 'shape', None)}, numpy model gives {sel.shape}")
                    break
                mask = np.ma.getmaskarray(got).ravel()
                data = got.data.ravel()
                bad = None
                for k, (c, w) in enumerate(zip(cells, wants)):
                    cell_value = zero if mask[k] else data[k]
                    if not same(norm(cell_value), norm(w), stats, floor=1.0 + 1e-4 * getattr(ref, "maxmag", 0.0)):
                        bad = (c, cell_value, w)
                        break
                if bad:
                    fail("value-mismatch", f"{desc}: cell {bad[0]}: compiled = {self._show(bad[1])}, reference = {self._show(bad[2])}",
                         {"name": name, "index": list(bad[0])})
                    break
            elif not same(norm(got), norm(want), stats, floor=1.0 + 1e-4 * getattr(ref, "maxmag", 0.0)):
                fail("value-mismatch", f"{desc}: compiled = {self._show(got)}, reference = {self._show(want)}",
                     {"name": name, "index": list(index)})
                break
            if any(w is not zero and w is not one for w in wants[1:]):
                nonzero += 1
            compared += 1
            seen_names.add(name)
            if want is not zero and want is not one:
                nonzero += 1
            if name in outputs:
                output_done = True
            elif output_done:
                internal_after = True
            if " @ " in name:
                bump("product_requested")
            events.append(("ret", opi, name, index, fingerprint(norm(got))))
            # invariants: no in-flight marker; eviction / recompute probes
            for nm, sobj in series.items():
                for k2, v2 in sobj._data.items():
                    if v2 is PENDING:
                        fail("pending-left", f"{desc}: in-flight marker left in {nm}[{k2}]")
                    st = hist.get((nm, k2))
                    if st is None:
                        hist[(nm, k2)] = 1
                    elif st == 2:
                        hist[(nm, k2)] = 3
                        bump("recompute_after_eviction")
            for (nm, k2), st in list(hist.items()):
                if st in (1, 3) and k2 not in series[nm]._data:
                    hist[(nm, k2)] = 2
                    bump("eviction_observed")
            sig = 0
            for nm, sobj in series.items():
                sig ^= hash((nm, frozenset(sobj._data)))
            states.append(format(sig & 0xFFFFFFFFFFFF, "x"))
        bump("compared", compared)
        if nonzero:
            bump("value_nonzero", nonzero)
        if internal_after:
            bump("internal_after_output")
        for k, v in stats.items():
            bump(k, v)
        try:
            if clear:
                _parse_algorithm.cache_clear()
            linecache.cache.pop(getattr(algo, "__code__", None) and algo.__code__.co_filename, None) if fam == "G" else None
        except Exception:
            pass
        nontrivial = compared >= 10 and len(seen_names) >= 3 and nonzero > 0 and internal_after
        out = self._out(violation, events, counters, nontrivial)
        out["states"] = states

        def recheck(ops):
            """Later requests on the series of *this* computation (after another one was built): still the reference values."""
            for op in ops:
                if op[1] == "sl" or op[0] not in series:
                    continue
                name_, i_, j_, n_ = op
                if i_ >= nb or j_ >= nb or sum(n_) > case["cap"]:
                    continue
                index_ = (i_, j_, *n_)
                try:
                    want_ = ref.value(name_, index_)
                except (refdsl.IllFounded, RecursionError, TracerOverflow):
                    continue
                except Exception:  # noqa: BLE001 - the reference decides nothing here
                    continue
                try:
                    got_ = series[name_][index_]
                except (RecursionError, TracerOverflow):
                    continue
                except Exception as e:  # noqa: BLE001
                    x = e
                    while x is not None:
                        if isinstance(x, (TracerOverflow, RecursionError)):
                            break
                        x = x.__cause__ or x.__context__
                    if x is not None:
                        continue
                    return {"class": "earlier-computation-raises", "info": {},
                            "detail": f"{name_}[{index_}] of the computation defined first, requested after a second computation was built from the same dictionary: raised {type(e).__name__}: {e}"}
                if not same(norm(got_), norm(want_), None, 1.0 + 1e-4 * getattr(ref, "maxmag", 0.0)):
                    return {"class": "earlier-computation-changed", "info": {},
                            "detail": f"{name_}[{index_}] of the computation defined first, requested after a second computation was built from the same dictionary: {self._show(got_)}, reference = {self._show(want_)}"}
            return None

        out["_recheck"] = recheck
        out["_series"] = series
        return out

    @staticmethod
    def _out(violation, events, counters, nontrivial):
        return {"violation": violation, "digest": batch.digest_of(events), "events": len(events),
                "nontrivial": nontrivial, "counters": counters}

    @staticmethod
    def _outputs(algo, src):
        import ast
        import inspect

        tree = ast.parse(src if src is not None else inspect.getsource(algo))
        for node in tree.body[0].body:
            if isinstance(node, ast.Return):
                v = node.value
                if isinstance(v, ast.Constant):
                    return [v.value]
                return [e.value for e in v.elts]
        return []

    @staticmethod
    def _feature_probes(src, bump):
        checks = {"marker_hermitian": "        hermitian\n", "marker_antihermitian": "        antihermitian\n",
                  "clause_diagonal": "if diagonal:", "clause_offdiagonal": "if offdiagonal:", "clause_lower": "if lower:",
                  "fn_call": "f(", "fn_series_arg": 'f("', "division": " / ", "ifexp": " if flag", "start_one": "start = 1",
                  "start_input": '_0"\n'}
        for k, pat in checks.items():
            if pat in src:
                bump(k)
        if "start" not in src.split('with "S1"')[0].split('with "S0"')[-1]:
            bump("start_none")
        import re

        if re.search(r'with "[^"]+ @ [^"]+":\n        hermitian', src):
            bump("hermitian_product")
        if re.search(r'with "[^"@]+ @ [^"@]+ @ [^"]+":\n        hermitian', src):
            bump("hermitian_product_3")

    @staticmethod
    def _input_table(name, spec, nb, ninf, hermitian, block_diag0, zero, sizes=None):
        rg = np.random.default_rng(spec["iseed"])
        tab = {}
        if sizes is not None:  # complex matrices (mutable values), generated programs only
            for n in itertools.product(range(MAXO[ninf] + 1), repeat=ninf):
                for i in range(nb):
                    for j in range(nb):
                        absent = rg.random() < spec["pz"]
                        shape = (sizes[i % len(sizes)], sizes[j % len(sizes)])
                        val = rg.normal(size=shape) + 1j * rg.normal(size=shape)
                        tab[(i, j, *n)] = zero if (absent or (sum(n) == 0 and spec["zero0"])) else val
            return tab
        for n in itertools.product(range(MAXO[ninf] + 1), repeat=ninf):
            for i in range(nb):
                for j in range(nb):
                    if hermitian and i > j:
                        continue
                    absent = rg.random() < spec["pz"]
                    idx = (i, j, *n)
                    if sum(n) == 0 and block_diag0:
                        if i == j:
                            gen = T.gen(f"{name}{list(idx)}")
                            tab[idx] = gen + gen.adjoint() if hermitian else gen
                        else:
                            tab[idx] = zero
                        continue
                    if sum(n) == 0 and spec["zero0"]:
                        tab[idx] = zero
                    elif absent:
                        tab[idx] = zero
                    else:
                        gen = T.gen(f"{name}{spec.get('tag', '')}{list(idx)}")
                        tab[idx] = gen + gen.adjoint() if (hermitian and i == j) else gen
            if hermitian:
                for i in range(nb):
                    for j in range(i):
                        v = tab[(j, i, *n)]
                        tab[(i, j, *n)] = zero if v is zero else v.adjoint()
        return tab

    @staticmethod
    def _show(x):
        r = repr(x).replace("\n", " ")
        return r if len(r) < 260 else r[:260] + "..."

    # ------------------------------------------------------------------ shrinking / known findings
    def shrink_candidates(self, case):
        for ops in dd_list(case["ops"]):
            yield {**case, "ops": ops}
        if case["family"] == "G":
            # drop whole series blocks / single clause lines of the program where it still parses
            lines = case["src"].splitlines()
            blocks = [k for k, ln in enumerate(lines) if ln.startswith('    with "')]
            for b, k in enumerate(blocks):
                end = blocks[b + 1] if b + 1 < len(blocks) else len(lines) - 1
                name = lines[k].split('"')[1]
                rest = lines[:k] + lines[end:]
                body = "\n".join(rest)
                if f'"{name}"' in body or f"{name} @" in body or f"@ {name}" in body:
                    continue
                yield {**case, "src": body + "\n"}
            if case["nb"] > 1:
                yield {**case, "nb": case["nb"] - 1}
            for n, spec in case["inputs"].items():
                if spec["pz"]:
                    yield {**case, "inputs": {**case["inputs"], n: {**spec, "pz": 0.0}}}
        elif case["family"] == "T":
            if case["nb"] > 1 and not case["two_block_optimized"]:
                yield {**case, "nb": case["nb"] - 1, "commuting_blocks": case["commuting_blocks"][:-1]}
            if case["pz"]:
                yield {**case, "pz": 0.0}
            if not all(case["commuting_blocks"]):
                yield {**case, "commuting_blocks": [True] * case["nb"]}

    def match_known(self, case, violation):
        if case.get("witness"):
            return case["witness"] if violation["class"] == "known-witness" else None
        return None

    def witnesses(self):
        return {fid: {"witness": fid} for fid in ['C09/linear-operator-mode-plain-product']}


PROP = Prop()
