"""C18 (sim-product): cauchy_dot_product as a stateful memo over caller-supplied factor series.

Reference model: nested-loop multivariate Cauchy sum.  History checks on the factor call log:
request discipline and at-most-once evaluation.  Request schedules are seeded.
"""
import itertools
import operator as _op

import numpy as np

from simkit import batch
from simkit.batch import dd_list
from simkit.values import T, fingerprint, norm, same

MAXO = {0: 0, 1: 4, 2: 2, 3: 1}  # per-axis order bound (0 parameters: the single order ())
NAMES = "ABCD"


def splittings(n, K):
    if K == 1:
        yield (n,)
        return
    for first in itertools.product(*(range(x + 1) for x in n)):
        rest = tuple(a - b for a, b in zip(n, first))
        for tail in splittings(rest, K - 1):
            yield (first, *tail)


def to_py(item):
    out = []
    for c in item:
        if isinstance(c, dict):
            out.append(list(c["l"]) if "l" in c else slice(*c["s"]))
        else:
            out.append(c)
    return tuple(out)


# With three or more factors the literal request discipline ("an order of a factor is requested only if the complementary
# orders of the other factors are present", present = not known absent when the request starts) is judged for the two leading
# factors.  A later factor meets an intermediate product series, which cannot know that an element is absent before it is
# evaluated; requests of later factors are judged by the highest-order contract only (DESIGN.md 10.3).
LITERAL_LEADING = True


class Prop:
    id = "C18"
    level = "exploration"
    run_timeout = 60
    tiers = {"quick": {"runs": 40000, "budget_s": 40, "chunk": 100},
             "thorough": {"runs": 3000000, "budget_s": 900, "chunk": 200}}
    rule = ("case = 2-4 caller-supplied factor BlockSeries (random compatible block shapes, 1-3 parameters, random absent "
            "elements, declared-absent zeroth orders, `one` on diagonals, exact non-commutative tracer values or complex "
            "matrices) + hermitian flag variants (adjoint pair S†S, sandwich S†MS, Hermitian-but-not-adjoint pair) + seeded "
            "request schedule over product elements (scalars, slices, views, repeats, `in` tests); every result is compared "
            "with the nested-loop Cauchy sum, and the factor call log is checked for request discipline and at-most-once "
            "evaluation.  non-trivial = at least 3 value-returning requests with at least one non-zero, non-sentinel "
            "result that needed >= 2 terms; distinct = distinct sha256 of the event log")
    probes = ["k2", "k3", "k4", "herm_adjpair", "herm_sandwich", "herm_nonadjoint", "domain_float", "domain_tracer",
              "result_one", "result_zero", "result_value", "multi_term_result", "default_operator", "factor_is_product_with_own_eval", "view_factor_shifted", "factor_element_popped", "product_element_popped", "discipline_checked", "discipline_checked_3plus", "highest_order_checked", "highest_order_truth_checked",
              "op_array", "op_view", "repeat_cached", "op_mul", "op_rmul", "known0_pattern", "view_factor", "twin_product", "same_object_factors", "late_eval_factor", "tiny_scale", "dynamic_discipline_checked", "factor_chain_dep", "family_R", "recurrent_W1", "recurrent_W2", "recurrent_W3", "recurrent_compared", "known_finding_signature_hits"]
    components_real = ["pymablock.series.cauchy_dot_product, product_by_order, BlockSeries"]
    components_stub = ["factor series eval callbacks (simulator-owned tables, call log)", "element multiplication wrapper (logging)",
                       "tracer element type (exact free *-algebra)"]
    assumptions = ["discipline rule: literal (present = not known absent when the request starts) for two-factor products and for the two "
                   "leading factors of longer products; for later factors, which meet an intermediate product series, only the documented "
                   "contract (full order n of a factor is requested only if every other factor has a not-known-absent zeroth-order element on some chain)",
                   "bounds: <= 4 factors, <= 3 blocks per dimension, per-axis orders <= 4/2/1 for 1/2/3 parameters"]

    # ------------------------------------------------------------------ recurrent definitions (family R)
    def gen_R(self, r, tier):
        ninf = r.choice([1, 1, 2])
        cap = 4 if ninf == 1 else 3
        kind = r.choice(["W1", "W1", "W1", "W2", "W3", "W3"])
        d = 1 if kind == "W3" else r.choice([1, 2, 2, 3])
        orders = [n for n in itertools.product(range(MAXO[ninf] + 1), repeat=ninf) if sum(n) <= cap]
        case = {"family": "R", "kind": kind, "d": d, "ninf": ninf, "cap": cap, "side": r.choice(["XB", "BX"]),
                "pzB": r.choice([0.0, 0.3, 0.6]), "pzC": r.choice([0.0, 0.3]),
                "b0": [r.choice(["data", "eval"]) for _ in range(d)], "u0": r.choice(["data", "eval"]),
                "hermitian": r.random() < 0.6, "seed": r.randrange(1 << 30)}
        names = ["X", "P"] if kind != "W3" else ["W", "U", "Ud", "P"]
        ops = []
        for _ in range(r.randint(4, 20)):
            n = r.choice(orders)
            if r.random() < 0.15:
                ops.append([r.choice(names), "sl", [r.randrange(d), r.randrange(d)] + [{"s": [0, m + 1, None]} for m in n]])
            else:
                ops.append([r.choice(names), r.randrange(d), r.randrange(d), list(n)])
        case["ops"] = ops
        return case

    def execute_R(self, case):
        from pymablock.series import PENDING, BlockSeries, cauchy_dot_product, zero

        d, ninf, kind = case["d"], case["ninf"], case["kind"]
        rg = np.random.default_rng(case["seed"])
        zo = (0,) * ninf
        orders = list(itertools.product(range(MAXO[ninf] + 1), repeat=ninf))
        events, counters = [], {"family_R": 1, "recurrent_" + kind: 1}
        violation = None

        def fail(cls, detail):
            nonlocal violation
            if violation is None:
                violation = {"class": cls, "detail": detail, "info": {}}

        def zsum(*xs):
            r_ = zero
            for x in xs:
                if x is not zero:
                    r_ = x if r_ is zero else r_ + x
            return r_

        def table(name, pz, zero0):
            tab = {}
            for n in orders:
                for i in range(d):
                    for j in range(d):
                        absent = rg.random() < pz
                        tab[(i, j, *n)] = zero if (absent or (sum(n) == 0 and zero0(i, j))) else T.gen(f"{name}{[i, j, *n]}")
            return tab

        series = {}
        if kind in ("W1", "W2"):
            side = case["side"]
            # B_0: W1 -> vanishes entirely (declared in data or found by evaluation); W2 -> a non-zero diagonal block in
            # every column/row, which makes every element of the recurrence ill-founded
            Bt = table("B", case["pzB"], (lambda i, j: True) if kind == "W1" else (lambda i, j: i != j))
            if kind == "W2":
                for j in range(d):
                    Bt[(j, j, *zo)] = T.gen(f"B{[j, j, *zo]}")
            Ct = table("C", case["pzC"], lambda i, j: False)
            flog = []
            known = {}
            if kind == "W1":
                for i in range(d):
                    for j in range(d):
                        if case["b0"][j if side == "XB" else i] == "data":
                            known[(i, j, *zo)] = zero
            B = BlockSeries(eval=lambda *idx: (flog.append(("B", tuple(map(int, idx)))), Bt[tuple(map(int, idx))])[1],
                            data=known or None, shape=(d, d), n_infinite=ninf, name="B")
            # like `start` data in the mini-language, the zeroth order of a well-founded recurrence is given up front
            x0 = {(i, j, *zo): Ct[(i, j, *zo)] for i in range(d) for j in range(d)} if kind == "W1" else None
            X = BlockSeries(data=x0, shape=(d, d), n_infinite=ninf, name="X")
            P = cauchy_dot_product(X, B) if side == "XB" else cauchy_dot_product(B, X)
            X.eval = lambda *idx: zsum(Ct[tuple(map(int, idx))], P[tuple(map(int, idx))])
            series = {"X": X, "P": P}
            memo = {}

            def RX(i, j, n):
                key = (i, j, n)
                if key not in memo:
                    memo[key] = zsum(Ct[(i, j, *n)], RP(i, j, n))
                return memo[key]

            def RP(i, j, n):
                res = zero
                for k in range(d):
                    for o1 in itertools.product(*(range(x + 1) for x in n)):
                        o2 = tuple(a - b for a, b in zip(n, o1))
                        if side == "XB":
                            if o1 == n:
                                continue  # B_0 vanishes: the highest order of X does not enter
                            b = Bt[(k, j, *o2)]
                            if b is zero:
                                continue
                            x = RX(i, k, o1)
                            term = zero if x is zero else x @ b
                        else:
                            if o2 == n:
                                continue
                            b = Bt[(i, k, *o1)]
                            if b is zero:
                                continue
                            x = RX(k, j, o2)
                            term = zero if x is zero else b @ x
                        res = zsum(res, term)
                return res

            refs = {"X": RX, "P": RP}
        else:
            # unitarity-like recurrence of the shipped algorithm, one block:  U' = W + V,  U'† = W - V,  W = -(U'† @ U') / 2
            Vt = {}
            for n in orders:
                g = T.gen(f"V{list(n)}")
                Vt[(0, 0, *n)] = zero if sum(n) == 0 else g - g.adjoint()
            W = BlockSeries(data={(0, 0, *zo): zero}, shape=(1, 1), n_infinite=ninf, name="W")
            u0 = {(0, 0, *zo): zero} if case["u0"] == "data" else None
            U = BlockSeries(eval=lambda *idx: zsum(W[idx], Vt[tuple(map(int, idx))]), data=u0, shape=(1, 1), n_infinite=ninf, name="U")
            Ud = BlockSeries(eval=lambda *idx: zsum(W[idx], -Vt[tuple(map(int, idx))] if Vt[tuple(map(int, idx))] is not zero else zero),
                             data=u0, shape=(1, 1), n_infinite=ninf, name="Ud")
            P = cauchy_dot_product(Ud, U, hermitian=bool(case["hermitian"]))
            W.eval = lambda *idx: (lambda p_: zero if p_ is zero else p_ / -2)(P[idx])
            series = {"W": W, "U": U, "Ud": Ud, "P": P}
            memo = {}

            def RW(i, j, n):
                if sum(n) == 0:
                    return zero
                if n not in memo:
                    p_ = RP(i, j, n)
                    memo[n] = zero if p_ is zero else p_ / -2
                return memo[n]

            def RU(i, j, n):
                return zsum(RW(0, 0, n), Vt[(0, 0, *n)])

            def RUd(i, j, n):
                v = Vt[(0, 0, *n)]
                return zsum(RW(0, 0, n), zero if v is zero else -v)

            def RP(i, j, n):
                res = zero
                for o1 in itertools.product(*(range(x + 1) for x in n)):
                    o2 = tuple(a - b for a, b in zip(n, o1))
                    if sum(o1) == 0 or sum(o2) == 0:
                        continue  # zeroth orders vanish
                    a, b = RUd(0, 0, o1), RU(0, 0, o2)
                    if a is zero or b is zero:
                        continue
                    res = zsum(res, a @ b)
                return res

            refs = {"W": RW, "U": RU, "Ud": RUd, "P": RP}

        T.work, T.budget = 0, 300000
        ids = np.arange(d * d * (MAXO[ninf] + 1) ** ninf).reshape((d, d) + (MAXO[ninf] + 1,) * ninf)
        cells_of = list(np.ndindex(*ids.shape))
        compared = 0
        from simkit.values import TracerOverflow

        for opi, op in enumerate(case["ops"]):
            if violation:
                break
            name = op[0]
            if name not in series:
                continue
            if op[1] == "sl":
                request = to_py(op[2])
                try:
                    sel = ids[request]
                except IndexError:
                    continue
                cells = [tuple(int(x) for x in cells_of[int(k)]) for k in np.asarray(sel).ravel().tolist()]
            else:
                _, i, j, n = op
                if i >= d or j >= d:
                    continue
                request = (i, j, *n)
                sel = None
                cells = [request]
            if not cells or any(sum(c[2:]) > case["cap"] for c in cells):
                continue
            desc = f"op#{opi} {name}[{request}]"
            try:
                got = series[name][request]
                exc = None
            except RuntimeError as e:
                exc = e
            except TracerOverflow:
                break
            except Exception as e:
                fail("unexpected-raise", f"{desc}: {type(e).__name__}: {e}")
                break
            if kind == "W2":
                # every element of the recurrence needs itself times a present zeroth-order partner
                if exc is None:
                    fail("ill-founded-returns-value", f"{desc}: the definition is self-referential (X needs X times a non-zero zeroth order of B), expected RuntimeError, got {self._show(got)}")
                events.append(("raise", opi))
                compared += 1
                continue
            if exc is not None:
                fail("recurrent-definition-raises", f"{desc}: the recurrent definition is well-founded (the partner of the highest order is absent at zeroth order) but the request raised {type(exc).__name__}: {exc}")
                break
            try:
                wants = [refs[name](c[0], c[1], tuple(c[2:])) for c in cells]
            except TracerOverflow:
                break
            if sel is not None and isinstance(sel, np.ndarray):
                mask = np.ma.getmaskarray(got).ravel()
                data = got.data.ravel()
                gots = [zero if mask[k] else data[k] for k in range(len(cells))]
            else:
                gots = [got]
            for c, g, w_ in zip(cells, gots, wants):
                if not same(norm(g), norm(w_)):
                    fail("value-mismatch", f"{desc}: element {c} = {self._show(g)}, recurrence solved directly = {self._show(w_)}")
                    break
            compared += 1
            events.append(("ret", opi, fingerprint(norm(got))))
            for s_ in series.values():
                if any(v is PENDING for v in s_._data.values()):
                    fail("pending-left", f"{desc}: in-flight marker left in {s_.name}")
        counters["recurrent_compared"] = compared
        return {"violation": violation, "digest": batch.digest_of(events), "events": len(events),
                "nontrivial": compared >= 3, "counters": counters, "states": []}

    # ------------------------------------------------------------------ generation
    def generate(self, r, tier, idx):
        if r.random() < 0.15:
            return self.gen_R(r, tier)
        ninf = r.choice([1, 1, 1, 2, 2, 3] * 3 + [0])  # now and then series without any perturbation parameter
        herm = r.choice(["none"] * 5 + ["adjpair"] * 2 + ["sandwich", "nonadjoint"])
        if herm == "adjpair":
            K = 2
        elif herm == "sandwich":
            K = 3
        elif herm == "nonadjoint":
            K = 2
        else:
            K = r.choice([2, 2, 3, 3, 4])
        dims = [r.choice([1, 2, 2, 3]) for _ in range(K + 1)]
        if herm == "adjpair":
            dims = [dims[0], dims[1], dims[0]]
        elif herm == "sandwich":
            dims = [dims[0], dims[1], dims[1], dims[0]]
        elif herm == "nonadjoint":
            dims = [dims[0]] * 3
        domain = r.choice(["tracer", "tracer", "float"])
        opname = "matmul"
        if domain == "tracer":
            opname = r.choice(["matmul"] * 3 + ["mul", "rmul"])  # rmul: the opposite algebra, op(a, b) = b·a
        factors = []
        for k in range(K):
            known0 = []
            x = r.random()
            if x < 0.15:  # a whole block row declared absent at zeroth order
                row = r.randrange(dims[k])
                known0 = [[row, j] for j in range(dims[k + 1])]
            elif x < 0.3:  # a whole block column
                col = r.randrange(dims[k + 1])
                known0 = [[i, col] for i in range(dims[k])]
            elif x < 0.4:
                known0 = [[r.randrange(dims[k]), r.randrange(dims[k + 1])] for _ in range(r.randint(1, 3))]
            factors.append({"pz": r.choice([0.0, 0.2, 0.5, 0.7]), "start_zero": r.random() < 0.3,
                            "ones": r.random() < 0.3, "ones_swap": r.random() < 0.25, "fseed": r.randrange(1 << 30), "known0": known0,
                            "chain_dep": r.random() < 0.15,  # evaluating an element first evaluates the previous order of the same factor
                            "late_eval": r.random() < 0.2,  # BlockSeries(data=...) first, `.eval = ...` assigned afterwards
                            "scale": r.choice([0, 0, 0, 3, 6, 9, 12])})  # float values of magnitude 10**-scale
        cap = {0: 0, 1: 4, 2: 3, 3: 2}[ninf]
        case = {"K": K, "ninf": ninf, "dims": dims, "herm": herm, "domain": domain, "op": opname, "factors": factors,
                "sizes": [r.choice([1, 2]) for _ in range(3)], "cap": cap}
        if r.random() < 0.08:
            case["product_factor"] = r.randrange(K)
        if domain == "float" and r.random() < 0.3:
            # the documented default: no operator given (matrix multiplication), elements of the array types the library itself uses
            case["default_op"] = True
            case["elem"] = r.choice(["ndarray", "csr_array", "csr_matrix", "csr_array"])
        if herm == "none" and r.random() < 0.1:
            # the same caller series used for two (or all) factors of the product: cauchy_dot_product(A, A[, A])
            dd = dims[0]
            case["dims"] = [dd] * (K + 1)
            case["same_object"] = sorted(r.sample(range(K), 2)) if K > 2 and r.random() < 0.5 else list(range(K))
            dims = case["dims"]
        if r.random() < 0.12 and ninf:
            # a factor handed over as a finite-index *view* of the caller's series (full slices / permutation-free lists)
            case["view_factor"] = [r.randrange(K), r.choice(["ss", "ls", "sl", "off", "perm", "off", "perm"])]
        # schedule
        orders = [n for n in itertools.product(range(MAXO[ninf] + 1), repeat=ninf) if sum(n) <= cap]
        ops = []
        views = []
        for t in range(r.randint(4, 30 if tier == "quick" else 60)):
            i, j = r.randrange(dims[0]), r.randrange(dims[-1])
            n = r.choice(orders)
            x = r.random()
            if x < 0.6:
                ops.append(["get", i, j, list(n)])
            elif x < 0.68:
                ops.append(["in", i, j, list(n)])
            elif x < 0.85:
                item = [self._comp(r, dims[0]), self._comp(r, dims[-1])] + [self._ord(r, m) for m in n]
                ops.append(["sl", item])
            elif views and r.random() < 0.7:
                vid = r.choice(views)
                ops.append(["vget", vid, list(n)])
            else:
                ops.append(["view", i, j, len(ops)])
                views.append(len(ops) - 1)
            if r.random() < 0.12 and ops[-1][0] in ("get", "sl"):
                ops.append(list(ops[-1]))
            if r.random() < 0.06:
                # the public pop(): the caller evicts a cached element of a factor or of the product
                if r.random() < 0.5:
                    k = r.randrange(K)
                    ops.append(["popf", k, r.randrange(dims[k]), r.randrange(dims[k + 1]), list(r.choice(orders))])
                else:
                    ops.append(["popp", r.randrange(dims[0]), r.randrange(dims[-1]), list(r.choice(orders))])
        case["ops"] = ops
        if domain == "tracer" and herm == "none" and r.random() < 0.3:
            pick = lambda: [r.randrange(dims[0]), r.randrange(dims[-1]), list(r.choice(orders))]  # noqa: E731
            case["twin"] = {"first": r.random() < 0.5, "pre": [pick() for _ in range(3)], "post": [pick() for _ in range(6)]}
        return case

    @staticmethod
    def _comp(r, d):
        x = r.random()
        if x < 0.5:
            return r.randrange(-d, d)
        if x < 0.65:
            return {"l": [r.randrange(d) for _ in range(r.choice([1, 2]))]}
        return {"s": [None, None, None]}

    @staticmethod
    def _ord(r, m):
        x = r.random()
        if x < 0.5:
            return m
        if x < 0.7:
            return {"l": sorted({r.randint(0, m), m})}
        return {"s": [r.choice([None, 0, r.randint(0, m)]), m + 1, None]}

    # ------------------------------------------------------------------ world construction
    def _tables(self, case, zero, one):
        """Element tables of the factors (dict index -> value) as the caller defines them."""
        K, ninf, dims, herm, domain = case["K"], case["ninf"], case["dims"], case["herm"], case["domain"]
        orders = list(itertools.product(range(MAXO[ninf] + 1), repeat=ninf))
        sizes = case["sizes"]

        def bsize(d):  # block sizes along a chain position (float domain)
            return sizes[d % len(sizes)]

        def fresh_value(k, idx, rg, rows, cols):
            if domain == "tracer":
                return T.gen(f"{NAMES[k]}{list(idx)}")
            v = (rg.normal(size=(rows, cols)) + 1j * rg.normal(size=(rows, cols))) * 10.0 ** (-case["factors"][k].get("scale", 0))
            if case.get("elem", "ndarray") != "ndarray":
                from scipy import sparse

                v = getattr(sparse, case["elem"])(v)
            return v

        def adj(v):
            if v is zero or v is one:
                return v
            return v.adjoint() if isinstance(v, T) else v.conj().T

        tables = []
        for k in range(K):
            spec = case["factors"][k]
            rg = np.random.default_rng(spec["fseed"])
            tab = {}
            for i in range(dims[k]):
                for j in range(dims[k + 1]):
                    for n in orders:
                        idx = (i, j, *n)
                        absent = rg.random() < spec["pz"]
                        rows, cols = (bsize(i), bsize(j))
                        if sum(n) == 0 and (spec["start_zero"] or [i, j] in spec.get("known0", [])):
                            tab[idx] = zero
                        elif sum(n) == 0 and spec.get("ones_swap") and dims[k] == dims[k + 1] == 2 and domain == "tracer" and herm != "nonadjoint":
                            tab[idx] = one if i != j else zero  # the zeroth order swaps two equal-sized blocks
                        elif sum(n) == 0 and spec["ones"] and dims[k] == dims[k + 1]:
                            tab[idx] = one if i == j else zero
                        elif absent:
                            tab[idx] = zero
                        else:
                            tab[idx] = fresh_value(k, idx, rg, rows, cols)
            tables.append(tab)
        if herm == "adjpair":
            tables[1] = {(j, i, *n): adj(v) for (i, j, *n), v in tables[0].items()}
        elif herm == "sandwich":
            tables[2] = {(j, i, *n): adj(v) for (i, j, *n), v in tables[0].items()}
            m = tables[1]
            for (i, j, *n), v in list(m.items()):
                if i > j:
                    m[(i, j, *n)] = adj(m[(j, i, *n)])
                elif i == j and v is not zero and v is not one:
                    m[(i, j, *n)] = v + adj(v)
        elif herm == "nonadjoint":
            # Hermitian product of two commuting Hermitian scalar series (1x1 values), not an adjoint pair
            for k in range(2):
                for idx, v in list(tables[k].items()):
                    if v is zero or v is one:
                        continue
                    i, j = idx[0], idx[1]
                    if i != j:
                        tables[k][idx] = zero
                    elif domain == "tracer":
                        tables[k][idx] = _scalar_t(1 + (sum(idx) + 3 * k) % 5)
                    else:
                        tables[k][idx] = np.array([[float(1 + (sum(idx) + 3 * k) % 5)]])
        return tables

    # ------------------------------------------------------------------ execution
    def execute(self, case):
        if case.get("witness"):
            from simkit import witness

            return witness.run(case["witness"])
        from simkit.values import TracerOverflow

        if case.get("family") == "R":
            return self.execute_R(case)
        T.work, T.budget = 0, 3000000  # per run: the outcome of a run never depends on what the worker executed before
        try:
            return self._execute_main(case)
        except TracerOverflow:
            return {"violation": None, "digest": batch.digest_of([("tracer-budget-exceeded",)]), "events": 0,
                    "nontrivial": False, "counters": {"tracer_budget_exceeded": 1}, "states": []}

    def _execute_main(self, case):
        from pymablock.series import PENDING, BlockSeries, cauchy_dot_product, one, zero
        from simkit.values import TracerOverflow

        K, ninf, dims, herm = case["K"], case["ninf"], case["dims"], case["herm"]
        self._case = case
        tables = self._tables(case, zero, one)
        self._mag = [0.0]
        events = []
        counters = {}
        stats = {}

        def bump(k, n=1):
            counters[k] = counters.get(k, 0) + n

        bump(f"k{K}")
        if case["domain"] == "float" and any(f.get("scale") for f in case["factors"]):
            bump("tiny_scale")
        bump("domain_" + case["domain"])
        if herm != "none":
            bump("herm_" + herm)
        if case["op"] == "mul":
            bump("op_mul")
        log = []  # (factor, index)
        mlog = [0]

        cur = {"cells": None}  # product cells of the request in flight
        depth = [0]
        dyn_bad = []

        def make_eval(k):
            tab = tables[k]
            chain = bool(case["factors"][k].get("chain_dep"))

            def ev(*index):
                index = tuple(int(i) for i in index)
                log.append((k, index))
                events.append(("f", k, index))
                depth[0] += 1
                try:
                    if depth[0] == 1 and K == 2 and cur["cells"] and not case.get("view_factor") and not case.get("same_object"):
                        # dynamic discipline: at this very moment some term of a requested cell must pair this element
                        # with a partner that is not known to be absent
                        ok = False
                        cells = list(cur["cells"])
                        if declared:
                            cells += [(c[1], c[0], *c[2:]) for c in cur["cells"]]
                        for c in cells:
                            n = c[2:]
                            o = index[2:]
                            if any(a > b for a, b in zip(o, n)):
                                continue
                            rest = tuple(b - a for a, b in zip(o, n))
                            if k == 0 and index[0] == c[0]:
                                ok = (index[1], c[1], *rest) in roots[1]
                            elif k == 1 and index[1] == c[1]:
                                ok = (c[0], index[0], *rest) in roots[0]
                            if ok:
                                break
                        bump("dynamic_discipline_checked")
                        if not ok:
                            dyn_bad.append((k, index))
                    if chain and len(index) > 2 and index[2] >= 1:
                        # the caller's factor is itself a recurrence: this element looks at the previous order first
                        roots[k][(index[0], index[1], index[2] - 1, *index[3:])]
                        bump("factor_chain_dep")
                    return tab.get(index, zero)
                finally:
                    depth[0] -= 1

            return ev

        factors = []
        for k in range(K):
            src = {"adjpair": [0, 0], "sandwich": [0, 1, 0]}.get(herm, list(range(K)))[k]
            spec = case["factors"][src]
            data = None
            if spec["start_zero"]:
                data = {(i, j, *(0,) * ninf): zero for i in range(dims[k]) for j in range(dims[k + 1])}
            elif spec.get("known0"):
                known = [(i, j) for i, j in spec["known0"] if i < dims[k] and j < dims[k + 1]]
                if herm == "adjpair" and k == 1 or herm == "sandwich" and k == 2:
                    known = [(j, i) for i, j in spec["known0"] if j < dims[k] and i < dims[k + 1]]
                elif herm == "sandwich" and k == 1:
                    known = [kk for kk in known if kk[0] <= kk[1]] + [(j, i) for i, j in known if i <= j]
                data = {(i, j, *(0,) * ninf): zero for i, j in known if tables[k].get((i, j, *(0,) * ninf), zero) is zero}
                bump("known0_pattern")
            if spec.get("late_eval"):
                fk = BlockSeries(data=data if data is not None else {}, shape=(dims[k], dims[k + 1]), n_infinite=ninf, name=NAMES[k])
                fk.eval = make_eval(k)
                bump("late_eval_factor")
            else:
                fk = BlockSeries(eval=make_eval(k), data=data, shape=(dims[k], dims[k + 1]), n_infinite=ninf, name=NAMES[k])
            factors.append(fk)
        if case["op"] == "rmul":
            base = lambda a, b: b @ a  # noqa: E731
            bump("op_rmul")
        else:
            base = _op.mul if case["op"] == "mul" else _op.matmul

        so = case.get("same_object")
        if so and all(k < K for k in so):
            for k in so[1:]:
                factors[k] = factors[so[0]]
                tables[k] = tables[so[0]]
            bump("same_object_factors")
        roots = list(factors)  # the caller's own series (a factor may be handed over as a view of one)
        vf = case.get("view_factor") if ninf else None
        if vf and vf[0] < K and vf[1] in ("off", "perm") and not case.get("same_object"):
            # the factor is a view that does not start at the first block row of the caller's series ("off": one more leading
            # row, declared absent at zeroth order) or takes the rows in reversed order ("perm"); the caller's declared zeros
            # sit at the positions of *its* series
            k, kind = vf
            inner = make_eval(k)
            nrows = dims[k] + (1 if kind == "off" else 0)
            perm = list(range(dims[k]))[::-1]
            row_of = (lambda p: p - 1 if p >= 1 else None) if kind == "off" else (lambda p: perm.index(p))

            def parent_eval(*index, inner=inner, row_of=row_of):
                index = tuple(int(i) for i in index)
                i_ = row_of(index[0])
                if i_ is None:
                    return zero
                return inner(i_, *index[1:])

            zo_ = (0,) * ninf
            pdata = {}
            old = factors[k]._data
            for (i_, j_, *n_), v_ in list(old.items()):
                p_ = i_ + 1 if kind == "off" else perm[i_]
                pdata[(p_, j_, *n_)] = v_
            if kind == "off":
                for j_ in range(dims[k + 1]):
                    pdata[(0, j_, *zo_)] = zero
            parent = BlockSeries(eval=parent_eval, data=pdata, shape=(nrows, dims[k + 1]), n_infinite=ninf, name=NAMES[k] + "_whole")
            roots[k] = parent
            factors[k] = parent[1:, :] if kind == "off" else parent[perm, :]
            bump("view_factor")
            bump("view_factor_shifted")
        elif vf and vf[0] < K:
            k, kind = vf
            if kind in ("off", "perm"):
                kind = "ss"
            rows = list(range(dims[k])) if kind[0] == "l" else slice(None)
            cols = list(range(dims[k + 1])) if kind[1] == "l" else slice(None)
            factors[k] = factors[k][rows, cols]
            bump("view_factor")

        def oper(a, b):
            mlog[0] += 1
            events.append(("m",))
            return base(a, b)

        pf = case.get("product_factor")
        if pf is not None and pf < K and not vf and not case.get("same_object") and herm == "none":
            # a factor that is itself a product series whose eval the caller replaced afterwards (the library does the same
            # to its own products): the outer product has to read *its* elements
            op_arg = {} if case.get("default_op") else {"operator": oper}
            Xs = BlockSeries(eval=lambda *index: zero, shape=(dims[pf], 1), n_infinite=ninf, name="X_sub")
            Ys = BlockSeries(eval=lambda *index: zero, shape=(1, dims[pf + 1]), n_infinite=ninf, name="Y_sub")
            fk = cauchy_dot_product(Xs, Ys, **op_arg)
            fk.eval = make_eval(pf)
            factors[pf] = fk
            roots[pf] = fk
            bump("factor_is_product_with_own_eval")

        declared = herm != "none"
        # a second product over the *same factor objects* with the opposite operator, alive at the same time
        twin = case.get("twin")
        base2 = (lambda a, b: b @ a) if case["op"] != "rmul" else _op.matmul  # noqa: E731
        P2 = None
        if twin and twin.get("first") and case["domain"] == "tracer":
            P2 = cauchy_dot_product(*factors, operator=base2)
            for (i, j, n) in twin["pre"]:
                if i < dims[0] and j < dims[-1]:
                    P2[(i, j, *n)]
        if case.get("default_op"):
            bump("default_operator")
            P = cauchy_dot_product(*factors, hermitian=declared)
        else:
            P = cauchy_dot_product(*factors, operator=oper, hermitian=declared)
        if twin and P2 is None and case["domain"] == "tracer":
            P2 = cauchy_dot_product(*factors, operator=base2)
        violation = None

        def fail(cls, detail, info=None):
            nonlocal violation
            if violation is None:
                violation = {"class": cls, "detail": detail, "info": info or {}}

        # ---- reference model
        mag = self._mag  # sum of the magnitudes of the terms of the last reference sum (float tolerance scale)

        def ref(i, j, n):
            result = zero
            nterms = 0
            mag[0] = 0.0
            for mids in itertools.product(*(range(dims[k]) for k in range(1, K))):
                chain = (i, *mids, j)
                for split in splittings(tuple(n), K):
                    vals = [tables[k].get((chain[k], chain[k + 1], *split[k]), zero) for k in range(K)]
                    if any(v is zero for v in vals):
                        continue
                    vals = [v for v in vals if v is not one]
                    if not vals:
                        term = one
                    else:
                        term = vals[0]
                        for v in vals[1:]:
                            term = base(term, v)
                    nterms += 1
                    if isinstance(term, np.ndarray):
                        mag[0] += float(np.max(np.abs(term), initial=0.0))
                    if result is zero:
                        result = term
                    elif term is one or result is one:
                        result = ("one+", result, term)  # never produced by our worlds (ones only at order 0)
                    else:
                        result = result + term
            return result, nterms

        def allowed(idx_req):
            """Literal discipline: (k, idx) may be evaluated iff all complementary indices are not known-absent."""
            i, j, *n = idx_req
            out = set()
            for mids in itertools.product(*(range(dims[k]) for k in range(1, K))):
                chain = (i, *mids, j)
                for split in splittings(tuple(n), K):
                    idxs = [(chain[k], chain[k + 1], *split[k]) for k in range(K)]
                    present = [idxs[k] in roots[k] for k in range(K)]
                    for k in range(K):
                        if all(present[m] for m in range(K) if m != k):
                            out.add((k, idxs[k]))
            return out

        def allowed_truth(idx_req):
            """Contract of product_by_order: the highest order of a factor is queried only if the other factors
            have zeroth-order partners that are *present* (truth of the caller's tables, not mere ignorance)."""
            i, j, *n = idx_req
            out = set()
            for mids in itertools.product(*(range(dims[k]) for k in range(1, K))):
                chain = (i, *mids, j)
                for k in range(K):
                    idxs = [(chain[m], chain[m + 1], *(tuple(n) if m == k else (0,) * ninf)) for m in range(K)]
                    if all(tables[m].get(idxs[m], zero) is not zero for m in range(K) if m != k):
                        out.add((k, idxs[k]))
            return out

        ids = np.arange(dims[0] * dims[-1] * (MAXO[ninf] + 1) ** ninf).reshape((dims[0], dims[-1]) + (MAXO[ninf] + 1,) * ninf)
        cells = list(np.ndindex(*ids.shape))
        views = {}
        states = []
        value_ops = 0
        rich = False
        requested = set()

        for opi, op in enumerate(case["ops"]):
            if violation:
                break
            kind = op[0]
            if kind == "in":
                _, i, j, n = op
                if i >= dims[0] or j >= dims[-1]:
                    continue
                events.append(("in", opi, (i, j, *n) in P))
                continue
            if kind == "popf":
                _, k_, i, j, n = op
                if k_ >= K or vf or case.get("same_object") or any(f.get("chain_dep") for f in case["factors"]):
                    continue
                idx_ = (i, j, *n)
                if i >= dims[k_] or j >= dims[k_ + 1]:
                    continue
                marker = object()
                if roots[k_].pop(idx_, marker) is not marker:
                    bump("factor_element_popped")
                    while (k_, idx_) in log:
                        log.remove((k_, idx_))  # it may be evaluated once more
                events.append(("popf", opi))
                continue
            if kind == "popp":
                _, i, j, n = op
                if i >= dims[0] or j >= dims[-1]:
                    continue
                marker = object()
                if P.pop((i, j, *n), marker) is not marker:
                    bump("product_element_popped")
                    requested.discard((i, j, *n))
                events.append(("popp", opi))
                continue
            if kind in ("view", "vget") and not ninf:
                continue  # without perturbation parameters a finite index is a complete index: there are no views
            if kind == "view":
                _, i, j, label = op
                if i >= dims[0] or j >= dims[-1]:
                    continue
                try:
                    views[label] = (P[i, j], i, j)
                    bump("op_view")
                except TracerOverflow:
                    raise
                except Exception as e:
                    fail("view-creation", f"op#{opi} {op}: {type(e).__name__}: {e}")
                continue
            if kind == "get":
                _, i, j, n = op
                if i >= dims[0] or j >= dims[-1]:
                    continue
                target, item = P, (i, j, *n)
                sel = ids[item]
            elif kind == "vget":
                _, label, n = op
                if label not in views:
                    continue
                target, i, j = views[label]
                item = tuple(n)
                sel = ids[(i, j, *n)]
            elif kind == "sl":
                item = to_py(op[1])
                target = P
                try:
                    sel = ids[item]
                except IndexError:
                    continue
                bump("op_array")
            else:
                continue
            must = [cells[int(k)] for k in np.asarray(sel).ravel().tolist()]
            must = [tuple(int(x) for x in c) for c in must]
            if not must or any(sum(c[2:]) > case["cap"] for c in must):
                continue
            # discipline: what may be evaluated, judged from what is known-absent when the request starts
            allow = set()
            for c in must:
                allow |= allowed(c)
                if declared:
                    allow |= allowed((c[1], c[0], *c[2:]))
            # "cached" is what the product's own memo holds right now (a view may still serve an element that was evicted
            # from the product itself)
            was_cached = target is P and all(c in requested and c in P._data for c in must)
            if was_cached:
                bump("repeat_cached")
            n0 = len(log)
            cur["cells"] = must if target is P else None
            try:
                res = target[item]
            except TracerOverflow:
                raise
            except Exception as e:
                fail("unexpected-raise", f"op#{opi} {op}: {type(e).__name__}: {e}")
                break
            finally:
                cur["cells"] = None
            if dyn_bad:
                k_, idx_ = dyn_bad[0]
                fail("discipline-dynamic", f"op#{opi} {op}: factor {NAMES[k_]} was evaluated at {idx_} at a moment when the complementary element of the other factor was already known to be absent for every requested element",
                     {"factor": k_, "idx": list(idx_)})
                break
            new = log[n0:]
            if any(f.get("chain_dep") for f in case["factors"]):
                new = []  # nested evaluations of a recurrent factor are not requests of the product
            if was_cached and new:
                fail("cached-product-reevaluates", f"op#{opi} {op}: repeated request evaluated factor elements {new[:3]}")
            requested.update(must)
            # (3) discipline (not for view factors: a packed view evaluates the whole block row/column of an order)
            if vf or case.get("same_object"):
                new = []  # one series object serving as several factors: the call log cannot tell the roles apart
            req_orders = {c[2:] for c in must}
            truth = None
            for (k, idx) in new:
                o = tuple(idx[2:])
                if sum(o) > 0 and o in req_orders and not any(n != o and all(a <= b for a, b in zip(o, n)) for n in req_orders):
                    if truth is None:
                        truth = set()
                        for c in must:
                            truth |= allowed_truth(c)
                            if declared:
                                truth |= allowed_truth((c[1], c[0], *c[2:]))
                    bump("highest_order_truth_checked")
                    if (k, idx) not in truth:
                        fail("discipline-highest-order", f"op#{opi} {op}: factor {NAMES[k]} evaluated at the full requested order {idx} although the other factors have no present zeroth-order partner (recurrent definitions would not terminate)",
                             {"factor": k, "idx": list(idx)})
                        break
            for (k, idx) in new:
                if K == 2 or (LITERAL_LEADING and k < 2):
                    bump("discipline_checked")
                    if K > 2:
                        bump("discipline_checked_3plus")
                    if (k, idx) not in allow:
                        fail("discipline", f"op#{opi} {op}: factor {NAMES[k]} evaluated at {idx} although on every block chain and splitting some complementary element of the other factors was known absent",
                             {"factor": k, "idx": list(idx)})
                        break
                elif sum(idx[2:]) > 0 and tuple(idx[2:]) in req_orders and not any(
                        n != tuple(idx[2:]) and all(a <= b for a, b in zip(idx[2:], n)) for n in req_orders):
                    bump("highest_order_checked")
                    if (k, idx) not in allow:
                        fail("discipline-highest-order", f"op#{opi} {op}: factor {NAMES[k]} evaluated at the full requested order {idx} although another factor has no zeroth-order partner",
                             {"factor": k, "idx": list(idx)})
                        break
            # (4) at most once
            if len(set(log)) != len(log):
                dup = next(x for x in log if log.count(x) > 1)
                fail("factor-evaluated-twice", f"op#{opi} {op}: factor element {dup} evaluated twice")
            # (1)/(2) values
            if violation:
                break
            if isinstance(sel, np.ndarray):
                if not isinstance(res, np.ma.MaskedArray) or res.shape != sel.shape:
                    fail("array-shape", f"op#{opi} {op}: result shape {getattr(res, 'shape', None)} vs model {sel.shape}")
                    break
                mask = np.ma.getmaskarray(res)
                for pos in np.ndindex(*sel.shape):
                    c = tuple(int(x) for x in cells[int(sel[pos])])
                    got = zero if mask[pos] else res.data[pos]
                    if not self._cmp(c, got, ref, fail, bump, stats, opi, op, zero, one):
                        break
                    rich = rich or self._rich
            else:
                c = must[0]
                if not self._cmp(c, res, ref, fail, bump, stats, opi, op, zero, one):
                    break
                rich = rich or self._rich
            value_ops += 1
            events.append(("ret", opi, fingerprint(norm(res))))
            sig = 0
            for si, s in enumerate([P, *roots]):
                if any(v is PENDING for v in s._data.values()):
                    fail("pending-left", f"op#{opi} {op}: in-flight marker left in {s.name}")
                sig ^= hash((si, frozenset(s._data)))
            states.append(format(sig & 0xFFFFFFFFFFFF, "x"))
        if P2 is not None and violation is None and not vf:
            bump("twin_product")
            saved_base = base
            base = base2  # the reference sum of the twin uses the twin's operator
            try:
                for (i, j, n) in twin["post"]:
                    if i >= dims[0] or j >= dims[-1] or sum(n) > case["cap"]:
                        continue
                    got = P2[(i, j, *n)]
                    want, _ = ref(i, j, tuple(n))
                    if isinstance(want, tuple) and want and want[0] == "one+":
                        continue
                    if not same(norm(got), norm(want), stats):
                        fail("value-mismatch-second-product", f"a second product over the same factor objects with another operator: element {(i, j, *n)} = {self._show(got)}, reference Cauchy sum = {self._show(want)}",
                             {"i": i, "j": j, "n": list(n)})
                        break
            except TracerOverflow:
                raise
            except Exception as e:
                fail("unexpected-raise", f"second product over the same factors: {type(e).__name__}: {e}")
            base = saved_base
        for k, v in stats.items():
            bump(k, v)
        return {"violation": violation, "digest": batch.digest_of(events), "events": len(events),
                "nontrivial": value_ops >= 3 and rich, "counters": counters, "states": states}

    _rich = False
    _case = None
    known_ids = frozenset()

    def _known_sig(self, c):
        case = self._case
        return case["herm"] == "nonadjoint" and case["K"] == 2 and c[0] == c[1] and sum(c[2:]) > 0

    def _cmp(self, c, got, ref, fail, bump, stats, opi, op, zero, one):
        want, nterms = ref(c[0], c[1], c[2:])
        self._rich = False
        if isinstance(want, tuple) and want and want[0] == "one+":
            return True  # identity plus something: not representable, never generated
        if want is zero:
            bump("result_zero")
        elif want is one:
            bump("result_one")
        else:
            bump("result_value")
            if nterms >= 2:
                bump("multi_term_result")
                self._rich = True
        if not same(norm(got), norm(want), stats, floor=self._mag[0] if self._case["domain"] == "float" else 1.0):
            if self._known_sig(c) and "C18/hermitian-halfsum-nonadjoint" in getattr(self, "known_ids", ()):
                bump("known_finding_signature_hits")
                return True
            fail("value-mismatch", f"op#{opi} {op}: product element {c} = {self._show(got)}, reference Cauchy sum = {self._show(want)}",
                 {"i": c[0], "j": c[1], "n": list(c[2:])})
            return False
        return True

    @staticmethod
    def _show(x):
        r = repr(x).replace("\n", " ")
        return r if len(r) < 240 else r[:240] + "..."

    # ------------------------------------------------------------------ shrinking / known findings
    def shrink_candidates(self, case):
        for ops in dd_list(case["ops"]):
            yield {**case, "ops": ops}
        if case.get("family") == "R":
            if case["d"] > 1 and case["kind"] != "W3":
                yield {**case, "d": case["d"] - 1, "b0": case["b0"][:-1]}
            for key in ("pzB", "pzC"):
                if case[key]:
                    yield {**case, key: 0.0}
            return
        for k, f in enumerate(case["factors"]):
            for key, val in (("pz", 0.0), ("start_zero", False), ("ones", False)):
                if f[key]:
                    fs = [dict(x) for x in case["factors"]]
                    fs[k][key] = val
                    yield {**case, "factors": fs}
        if case["herm"] == "none":
            for k in range(case["K"] + 1):
                if case["dims"][k] > 1:
                    dims = list(case["dims"])
                    dims[k] -= 1
                    yield {**case, "dims": dims}
        if case["domain"] == "float":
            yield {**case, "domain": "tracer"}

    def match_known(self, case, violation):
        if case.get("witness"):
            return case["witness"] if violation["class"] == "known-witness" else None
        info = violation.get("info", {})
        if case.get("family") == "R":
            return None
        if (case["herm"] == "nonadjoint" and case["K"] == 2 and violation["class"] == "value-mismatch"
                and info.get("i") is not None and info["i"] == info["j"] and sum(info["n"]) > 0):
            return "C18/hermitian-halfsum-nonadjoint"
        return None

    def witnesses(self):
        # 1x1 blocks, A = 1 + 3*lambda, B = 1 + 2*lambda (both Hermitian, commuting), operator = mul, hermitian=True:
        # order 1 of A*B is 5; the half-sum returns 2*A0*B1 = 4.
        return {"C18/one-plus-term": {"witness": "C18/one-plus-term"}, "C18/hermitian-halfsum-nonadjoint": {
            "K": 2, "ninf": 1, "dims": [1, 1, 1], "herm": "nonadjoint", "domain": "tracer", "op": "mul",
            "factors": [{"pz": 0.0, "start_zero": False, "ones": False, "fseed": 1},
                        {"pz": 0.0, "start_zero": False, "ones": False, "fseed": 2}],
            "sizes": [1, 1, 1], "cap": 4, "ops": [["get", 0, 0, [1]]]}}


def _scalar_t(c):
    """Scalar multiple of the identity in the tracer algebra (empty word)."""
    from fractions import Fraction

    return T({(): Fraction(c)})


PROP = Prop()
