"""C12: lazy and causal - order n uses only Hamiltonian terms of order <= n, each at most once."""
from props.graph import GraphProp, world_box, world_cap


class Prop(GraphProp):
    id = "C12"
    level = "exploration"
    check_cone = True
    check_mutation = False
    final_sweep = None
    tiers = {"quick": {"runs": 6000, "budget_s": 45, "chunk": 8},
             "thorough": {"runs": 400000, "budget_s": 900, "chunk": 16}}
    rule = ("case = seeded world whose Hamiltonian is a lazily evaluated user BlockSeries (blocked / scalar+indices / "
            "scalar+eigenvectors / scalar series of nested block lists; dict and list inputs only in the poisoned-twin variant) with terms at arbitrary "
            "multi-orders + seeded request schedule; the Hamiltonian-term callback is the monitored seam: after every "
            "operation its call log must lie in the dependency cone of the requested orders, definitions may touch order 0 "
            "only, each term is evaluated at most once; in the poisoned-twin variant every term outside the cone of the "
            "final target raises (or is NaN) and the target must still equal the un-poisoned value; in the altered-twin variant the "
            "terms outside a protected cone are scaled by 1e6 / 1e-6 / -3 / 1e3, the schedule is unrestricted (requests outside the "
            "cone evaluate the altered terms first) and every request inside the cone must return the value of the unaltered world. non-trivial = at "
            "least 3 value-returning requests with at least one Hamiltonian term of order >= 1 evaluated; distinct = "
            "distinct sha256 of the event log")
    probes = ["fmt_implicit", "altered_twin_runs", "altered_twin_symbolic", "altered_twin_nonhermitian_term", "altered_out_of_cone_request", "poison_runs", "poison_target_ok", "cb_H", "op_array", "multi_comp_world", "fmt_scalar_idx",
              "fmt_scalar_vecs", "fmt_dict", "fmt_list", "h_term_order_ge2"]
    assumptions = ["only evaluations of the caller's Hamiltonian callback are observed (cache hits are not calls)",
                   "chained computations are excluded (their callback legitimately evaluates another computation)"]

    profile = {"p_chain": 0.0, "fmts": ["blocked"] * 5 + ["scalar_idx"] * 3 + ["scalar_vecs"] * 2 + ["nested"], "p_illposed": 0.0,
               "p_derived": 0.3, "p_nested_lazy": 1.0}
    profile_poison = {"p_chain": 0.0, "fmts": ["blocked"] * 4 + ["scalar_idx"] * 2 + ["scalar_vecs", "dict", "dict", "list"],
                      "p_illposed": 0.0, "p_derived": 0.3, "domains": ["dense"] * 6 + ["sparse"] * 2}

    profile_alter = {"p_chain": 0.0, "fmts": ["blocked"] * 4 + ["scalar_idx"] * 3 + ["scalar_vecs", "dict", "dict", "nested"],
                     "p_illposed": 0.0, "p_derived": 0.3, "domains": ["dense"] * 6 + ["sparse"] * 2}

    profile_alter_sym = {"p_chain": 0.0, "p_illposed": 0.0, "p_derived": 0.3, "domains": ["sym"]}

    def generate(self, r, tier, idx):
        import itertools

        if r.random() < 0.4:
            w = self.gen_world(r, tier, self.profile_poison)
            nb, npert = len(w["sizes"]), w["npert"]
            cap = world_cap(w)
            cands = [n for n in itertools.product(range(world_box(w) + 1), repeat=npert) if 1 <= sum(n) <= cap]
            n = r.choice(cands)
            c = r.randrange(len(w["comps"]))
            s = r.choice(["H_tilde", "U", "U_inv"] + (["d0", "d2"] if w.get("derived") else []))
            ops = self.gen_ops(r, w, tier, {**self.profile_poison, "max_ops": 15}, cone=[n])
            ops.append(["get", c, s, r.randrange(nb), r.randrange(nb), list(n)])
            return {"world": w, "ops": ops, "faults": [], "poison": [list(n)]}
        if r.random() < 0.25:
            # altered twin: every term outside the cone of n is scaled by a large (or small, or negative) factor in the world
            # that is executed; the schedule is unrestricted, and every request inside the cone - whatever was evaluated
            # before it - must return the value of the unaltered world
            symbolic = r.random() < 0.3  # exact worlds, also given as one sympy expression that the library expands term by term
            w = self.gen_world(r, tier, self.profile_alter_sym if symbolic else self.profile_alter)
            nb, npert = len(w["sizes"]), w["npert"]
            cap = world_cap(w)
            cands = [n for n in itertools.product(range(world_box(w) + 1), repeat=npert) if 1 <= sum(n) <= cap]
            outside = [n for n in cands if any(not all(a <= b for a, b in zip(t, n)) for t in map(tuple, w["terms"]))]
            n = r.choice(outside or cands)
            if w["domain"] in ("dense", "sparse") and r.random() < 0.5:
                # small but significant terms inside the cone (a history-dependent tolerance would swallow them)
                w["term_scale"] = [r.choice([1.0, 1e-4, 1e-8]) if all(a <= b for a, b in zip(t, n)) else 1.0 for t in w["terms"]]
            ops = self.gen_ops(r, w, tier, {**self.profile_alter, "max_ops": 12})
            tail = [op for op in self.gen_ops(r, w, tier, {**self.profile_alter, "max_ops": 10}, cone=[n]) if op[0] != "build"]
            ops += tail
            for _ in range(2):
                c = r.randrange(len(w["comps"]))
                s = r.choice(["H_tilde", "U", "U_inv"] + (["d0", "d2"] if w.get("derived") else []))
                m = r.choice([m for m in cands if all(a <= b for a, b in zip(m, n))])
                ops.append(["get", c, s, r.randrange(nb), r.randrange(nb), list(m)])
            alter = {"cone": [list(n)], "factor": r.choice([1e6, 1e6, 1e-6, -3.0, 1e3])}
            if symbolic and w["herm"] and w["fmt"] in ("sympy_expr", "symkeys"):
                alter["nonherm"] = True
            return {"world": w, "ops": ops, "faults": [], "alter": alter}
        w = self.gen_world(r, tier, self.profile)
        ops = self.gen_ops(r, w, tier, self.profile)
        return {"world": w, "ops": ops, "faults": []}

    def execute(self, case):
        out = super().execute(case)
        if case.get("alter"):
            out["counters"]["altered_twin_runs"] = 1
            if case["world"].get("domain") == "sym":
                out["counters"]["altered_twin_symbolic"] = 1
            if case["alter"].get("nonherm"):
                out["counters"]["altered_twin_nonhermitian_term"] = 1
        if case.get("poison"):
            out["counters"]["poison_runs"] = 1
            if out["violation"] is None:
                out["counters"]["poison_target_ok"] = 1
        return out

    def nontrivial(self, case, counters, op_kinds, value_ops, special, depth_at_fault):
        return value_ops >= 3 and counters.get("h_term_order_ge1", 0) > 0


PROP = Prop()
