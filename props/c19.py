"""C19 (sim-index): BlockSeries indexing vs a dense numpy model, with eval call log.

Model-based stateful run: a seeded sequence of index operations (on root series and on kept
views) is applied to real BlockSeries objects and to a dense numpy array of element ids;
after every operation the result, the eval call log and the memo are checked.
"""
import json

import numpy as np

from simkit import batch
from simkit.batch import dd_list

K = 5  # orders 0..K-1 exist in the model


class Tag:
    """Unique element value: each read is attributable to one evaluation."""

    __slots__ = ("s", "idx", "src")

    def __deepcopy__(self, memo):
        return self  # an immutable token

    def __init__(self, s, idx, src):
        self.s, self.idx, self.src = s, idx, src

    def __repr__(self):
        return f"<{self.src}{self.s}{list(self.idx)}>"


def _item_to_py(item):
    out = []
    for c in item:
        if isinstance(c, dict):
            if "l" in c:
                out.append(json.loads(json.dumps(c["l"])))  # the caller's own (possibly nested) lists, never the case's
            elif "npi" in c:
                out.append(np.dtype(c.get("dt", "int64")).type(c["npi"]))  # numpy integers of any width are integers
            elif "na" in c:
                out.append(np.array(c["na"], dtype=c.get("dt")))  # an index list handed over as a numpy integer array
            elif "np0" in c:
                out.append(np.array(c["np0"]))  # a 0-d integer array: an integer for numpy's indexing
            else:
                out.append(slice(*c["s"]))
        else:
            out.append(c)
    return tuple(out)


class Prop:
    id = "C19"
    level = "exploration"
    hang_is_violation = True
    run_timeout = 30
    tiers = {"quick": {"runs": 60000, "budget_s": 40, "chunk": 250},
             "thorough": {"runs": 3000000, "budget_s": 600, "chunk": 500}}
    rule = ("case = seeded world (1-3 root BlockSeries with 0-4 finite and 0-2 infinite dimensions, absent elements, "
            "pre-cached data, dependency edges incl. self-referential cycles of length 1-3) + seeded sequence of 5-40 index "
            "operations on roots and kept views, interleaved with evictions through the public pop() and `in` tests (an evicted "
            "element may be evaluated once more, a cached one never); non-trivial = at least 3 value-returning operations, at least one "
            "masked-array result or view operation, and at least 2 operation categories; distinct = distinct sha256 of the "
            "event log (operations, outcomes, eval calls)")
    probes = ["op_scalar", "op_array", "op_view_create", "op_on_view", "op_on_packed_view", "expect_indexerror_order",
              "expect_indexerror_finite", "expect_runtimeerror_cycle", "masked_result", "precached_read",
              "dep_nested_eval", "dep_slice_eval", "dep_view_eval", "nested_list_index", "none_valued_read", "kept_view_created", "op_on_kept_view", "npint_index", "cycle_len1", "cycle_len2", "cycle_len3", "view_of_view", "wrong_length", "bare_index", "index_array_mutated_after_view", "index_list_mutated_after_view", "nested_index_list_mutated_after_view", "narrow_int_at_type_max", "wide_world", "deepcopy_checked", "zero_dim_array_index", "subclassed_roots", "oob_scalar_view", "op_on_oob_view", "eval_formats_series", "pop_cached", "pop_absent", "contains_true", "contains_false"]
    components_real = ["pymablock.series.BlockSeries (__getitem__, views, pop, __contains__, _check_finite, _check_number_perturbations)"]
    components_stub = ["element eval callbacks (simulator-owned table with dependency edges)", "series names (token_hex counter)"]
    assumptions = ["orders < 5 (5% of the worlds: one series with orders < 256 requested through numpy integers of every width up to the maximum of their type), at most 4 finite and 2 infinite dimensions (5 in total), sizes 1-3",
                   "requests touching an ill-founded element only through a packed view's sibling cells may either raise RuntimeError or return the model value"]

    # ------------------------------------------------------------------ generation
    def generate(self, r, tier, idx):
        if r.random() < 0.05:
            return self._gen_wide(r)
        nroots = r.choice([1, 1, 2, 3])
        roots = []
        for s in range(nroots):
            nfin = r.choice([0, 1, 2, 2, 2, 3, 3, 4])
            ninf = r.choice([0, 1, 1, 1, 2]) if nfin else r.choice([1, 1, 2])
            if nfin + ninf > 5:
                nfin = 5 - ninf
            shape = [r.choice([1, 2, 2, 3] if nfin < 4 else [1, 2, 2]) for _ in range(nfin)]
            roots.append({"shape": shape, "ninf": ninf, "p_absent": r.choice([0.0, 0.2, 0.5]), "p_none": r.choice([0.0, 0.0, 0.0, 0.15]),
                          "p_exotic": r.choice([0.0, 0.0, 0.3, 0.8]),
                          "vseed": r.randrange(1 << 30), "pre": []})
        # pre-cached entries
        for s, root in enumerate(roots):
            for _ in range(r.choice([0, 0, 1, 3])):
                root["pre"].append([self._rand_index(r, root), r.random() < 0.3])
        # dependency edges: legal (strictly decreasing rank) and cycles
        edges = []
        for _ in range(r.choice([0, 1, 2, 4, 6])):
            s = r.randrange(nroots)
            a = self._rand_index(r, roots[s])
            t = r.randrange(nroots)
            b = self._rand_index(r, roots[t])
            kind = [r.choice(["sl", "vw", "vw"])] if r.random() < 0.45 else []
            if self._rank(roots, t, b) < self._rank(roots, s, a):
                edges.append([s, a, t, b] + (kind if roots[t]["ninf"] else []))
            elif self._rank(roots, s, a) < self._rank(roots, t, b):
                edges.append([t, b, s, a] + (kind if roots[s]["ninf"] else []))
        kept_views = []
        for _ in range(r.choice([0, 0, 1, 2])):
            s = r.randrange(nroots)
            if roots[s]["shape"] and roots[s]["ninf"]:
                a = self._rand_index(r, roots[s])
                edges.append([s, a, s, a, "kv"])  # while this element is evaluated, a view of its own block is created and kept
                kept_views.append([s, a[: len(roots[s]["shape"])]])
        cyc = r.choice([0, 0, 0, 1, 1, 2, 3])
        if cyc:
            nodes = []
            for _ in range(cyc):
                s = r.randrange(nroots)
                nodes.append([s, self._rand_index(r, roots[s])])
            for i in range(cyc):
                edges.append([*nodes[i], *nodes[(i + 1) % cyc]])
        # operations
        ops = []
        targets = [("r", s) for s in range(nroots)]
        # model of target dims for generation: (fin shape list, ninf)
        dims = {("r", s): (list(roots[s]["shape"]), roots[s]["ninf"]) for s in range(nroots)}
        nviews = 0
        flavour = r.choice(["mixed", "mixed", "scalars", "arrays", "views"])
        for _ in range(r.randint(5, 40 if tier == "quick" else 80)):
            tgt = r.choice(targets)
            shape, ninf = dims[tgt]
            make_view = ninf > 0 and r.random() < (0.5 if flavour == "views" else 0.12)
            fault = r.random() < 0.1
            item = self._rand_item(r, shape, ninf, finite_only=make_view, flavour=flavour, fault=fault)
            if r.random() < 0.12:
                item = [({"npi": c, "dt": r.choice(["int64", "int64", "int8", "int16", "int32", "intp"] + (["uint8", "uint16", "uint64"] if c >= 0 else []))}
                         if isinstance(c, int) and r.random() < 0.6 else c) for c in item]
                item = [({"np0": c["npi"]} if isinstance(c, dict) and "npi" in c and r.random() < 0.25 else c) for c in item]
            ops.append(["idx", list(tgt), item, len(ops)])
            if make_view and r.random() < 0.3:
                # index lists handed over as numpy integer arrays (flat, non-empty ones)
                item[:] = [({"na": c["l"]} if isinstance(c, dict) and "l" in c and c["l"] and isinstance(c["l"][0], int) else c) for c in item]
            if make_view and any(isinstance(c, dict) and ("l" in c or "na" in c) for c in item) and r.random() < 0.4:
                ops[-1].append("mut")  # after creating the view the caller re-uses (mutates) the lists it indexed with
            if len(item) == 1 and r.random() < 0.5:
                ops[-1].append("bare")  # the single index component is given as it is, not wrapped in a tuple: S[[0, 2]], S[1:], S[3]
            if make_view and nviews < 6:
                try:
                    vshape = list(np.empty(shape)[_item_to_py(item)].shape)
                except Exception:
                    if not all(isinstance(c, int) for c in item):
                        continue
                    vshape = []  # out-of-bounds scalar view: later operations on it must all raise IndexError
                vt = ("v", len(ops) - 1)
                targets.append(vt)
                dims[vt] = (vshape, ninf)
                nviews += 1
        # the public memo interface between the requests: pop (evict one cached element) and `in` (known-absent test)
        for _ in range(r.choice([0, 0, 1, 2, 4])):
            s = r.randrange(nroots)
            ops.insert(r.randint(0, len(ops)), [r.choice(["pop", "pop", "in"]), s, self._rand_index(r, roots[s])])
        for s, fin in kept_views:
            for _ in range(r.randint(1, 4)):
                orders = [r.randrange(K) if r.random() < 0.7 else {"s": [0, r.randint(1, K), None]} for _ in range(roots[s]["ninf"])]
                ops.insert(r.randint(0, len(ops)), ["kidx", s, fin, orders])
        # callbacks that log: every eval first formats its own series (repr / str / f-string)
        return {"roots": roots, "edges": edges, "ops": ops, "talkative": r.random() < 0.25, "subclassed": r.random() < 0.15}

    @staticmethod
    def _gen_wide(r):
        """One series with 256 orders: order indices given as narrow numpy integers up to the maximum of their type."""
        shape = r.choice([[], [2], [2, 2]])
        root = {"shape": shape, "ninf": 1, "K": 256, "p_absent": r.choice([0.0, 0.3]), "p_none": 0.0, "p_exotic": 0.0,
                "vseed": r.randrange(1 << 30), "pre": []}
        edge = {"int8": [127, 127, 126, 100, 5], "uint8": [255, 255, 254, 128, 7], "int16": [255, 200], "uint16": [255, 129],
                "int32": [255, 130], "int64": [255, 3]}

        def order():
            dt = r.choice(list(edge))
            x = r.random()
            if x < 0.45:
                return {"npi": r.choice(edge[dt]), "dt": dt}
            if x < 0.7:
                return {"na": [r.choice(edge[dt]) for _ in range(r.choice([1, 2, 3]))], "dt": dt}
            if x < 0.8:
                return r.choice([127, 128, 255, 200, 0])
            if x < 0.9:
                a = r.choice([120, 125, 250])
                return {"s": [a, a + r.randint(1, 5), None]}
            return {"l": [r.choice([127, 255, 1]) for _ in range(r.choice([1, 2]))]}

        ops, targets = [], [("r", 0)]
        for _ in range(r.randint(3, 8)):
            tgt = r.choice(targets)
            fin = [] if tgt[0] == "v" else [r.randrange(d) if r.random() < 0.7 else {"s": [None, None, None]} for d in shape]
            if tgt[0] == "r" and shape and r.random() < 0.3 and len(targets) < 3:
                item = [r.randrange(d) for d in shape]  # a scalar view first, orders later
                ops.append(["idx", list(tgt), item, len(ops)])
                targets.append(("v", len(ops) - 1))
                continue
            ops.append(["idx", list(tgt), fin + [order()], len(ops)])
        return {"roots": [root], "edges": [], "ops": ops, "talkative": False, "subclassed": False, "wide": True}

    @staticmethod
    def _rank(roots, s, idx):
        nfin = len(roots[s]["shape"])
        return (sum(idx[nfin:]), s, tuple(idx))

    @staticmethod
    def _rand_index(r, root):
        return [r.randrange(d) for d in root["shape"]] + [r.randrange(K) for _ in range(root["ninf"])]

    def _rand_item(self, r, shape, ninf, finite_only, flavour, fault):
        item = []
        lens = r.choice([1, 2, 2, 3])  # common list length so that broadcasting usually works
        for d in shape:
            x = r.random()
            if d == 0:
                item.append(r.choice([0, {"s": [None, None, None]}, {"l": [0]}]))
                continue
            if flavour == "scalars" or x < 0.45:
                v = r.randrange(-d, d)
                if fault and r.random() < 0.15:
                    v = r.choice([d, -d - 1])
                item.append(v)
            elif x < 0.65:
                n = lens if r.random() < 0.85 else r.choice([0, 1, 2, 3])  # now and then an empty list: an empty selection
                item.append({"l": [r.randrange(-d, d) for _ in range(n)]})
            else:
                a = r.choice([None, None, 0, r.randint(-d - 1, d + 1)])
                b = r.choice([None, None, d, r.randint(-d - 1, d + 1)])
                c = r.choice([None, None, 1, 2])
                item.append({"s": [a, b, c]})
        if finite_only:
            if all(isinstance(c, int) for c in item) and not (fault and r.random() < 0.5):
                # mostly in bounds; an out-of-bounds scalar view may fail at creation or on every use, never serve elements
                item = [(c if -d <= c < d else 0) if d else {"s": [None, None, None]} for c, d in zip(item, shape)]
            elif len(shape) >= 2 and min(shape) >= 1 and not fault and r.random() < 0.12:
                # a view selected with a column list and a row list (nested lists, what np.ix_ produces)
                a, b = sorted(r.sample(range(len(shape)), 2))
                item = [c if isinstance(c, int) else 0 for c in item]
                item[a] = {"l": [[r.randrange(shape[a])] for _ in range(2)]}
                item[b] = {"l": [[r.randrange(shape[b]) for _ in range(r.choice([1, 2]))]]}
            return item
        fault_dim = r.randrange(ninf) if (fault and ninf and r.random() < 0.7) else None
        for k in range(ninf):
            x = r.random()
            if k == fault_dim:
                kind = r.choice(["inf", "negint", "neglist", "negstart", "negstop", "infstart"])
                if kind == "inf":
                    item.append({"s": [r.choice([None, 0, 1]), None, None]})
                elif kind == "infstart":
                    item.append({"s": [None, None, r.choice([None, 1])]})
                elif kind == "negint":
                    item.append(-r.randint(1, 3))
                elif kind == "neglist":
                    item.append({"l": [r.randrange(K), -r.randint(1, 3)][: max(2, lens)]})
                elif kind == "negstart":
                    item.append({"s": [-r.randint(1, 3), r.randint(1, K), None]})
                else:
                    item.append({"s": [r.choice([None, 0]), -r.randint(1, 3), None]})
            elif flavour == "scalars" or x < 0.5:
                item.append(r.randrange(K))
            elif x < 0.65:
                n = lens if r.random() < 0.85 else r.choice([0, 1, 2, 3])
                item.append({"l": [r.randrange(K) for _ in range(n)]})
            else:
                b = r.randint(0, K)
                a = r.choice([None, 0, r.randint(0, K)])
                c = r.choice([None, 1, 2, 3])
                item.append({"s": [a, b, c]})
        if not finite_only and not fault and len(item) >= 2 and r.random() < 0.08:
            # two index components given as a column list and a row list (what np.ix_ produces); the others stay scalars
            dims_all = list(shape) + [K] * ninf
            a, b = sorted(r.sample(range(len(item)), 2))
            if min(dims_all[a], dims_all[b]) < 1:
                return item
            item = [c if isinstance(c, int) else (0 if k < len(shape) else r.randrange(K)) for k, c in enumerate(item)]
            item[a] = {"l": [[r.randrange(dims_all[a])] for _ in range(2)]}
            item[b] = {"l": [[r.randrange(dims_all[b]) for _ in range(r.choice([1, 2]))]]}
        if fault and r.random() < 0.1 and item:
            # wrong number of indices
            if r.random() < 0.5:
                item = item[:-1] if len(item) - 1 != len(shape) else item + [0]
            else:
                item = item + [0]
        return item

    # ------------------------------------------------------------------ execution
    def execute(self, case):
        if case.get("witness"):
            from simkit import witness

            return witness.run(case["witness"])
        from pymablock.series import PENDING, BlockSeries, zero

        roots_spec = case["roots"]
        nroots = len(roots_spec)
        events = []
        counters = {}

        def bump(k, n=1):
            counters[k] = counters.get(k, 0) + n

        # --- model
        edges = {}  # node -> dependencies in the model (expanded)
        requests = {}  # node -> what the eval really asks for
        for e in case["edges"]:
            s, a, t, b = e[:4]
            if s < nroots and t < nroots and self._valid(roots_spec, s, a) and self._valid(roots_spec, t, b):
                if len(e) > 4 and e[4] == "kv":
                    nf = len(roots_spec[s]["shape"])
                    if nf and roots_spec[s]["ninf"]:
                        requests.setdefault((s, tuple(a)), []).append((s, ("keep", tuple(int(x) for x in a[:nf]))))
                    continue
                if len(e) > 4 and e[4] == "vw" and roots_spec[t]["ninf"] and roots_spec[t]["shape"]:
                    # the eval goes through an all-integer view of the other series
                    nf = len(roots_spec[t]["shape"])
                    deps = [(t, tuple(b))]
                    requests.setdefault((s, tuple(a)), []).append((t, ("view", tuple(b[:nf]), tuple(b[nf:]))))
                elif len(e) > 4 and e[4] == "sl" and roots_spec[t]["ninf"]:
                    # the eval asks for a slice over the last order: all lower orders of the same block
                    deps = [(t, tuple(b[:-1]) + (m,)) for m in range(b[-1] + 1)]
                    requests.setdefault((s, tuple(a)), []).append((t, tuple(b[:-1]) + (slice(0, b[-1] + 1),)))
                else:
                    deps = [(t, tuple(b))]
                    requests.setdefault((s, tuple(a)), []).append((t, tuple(b)))
                edges.setdefault((s, tuple(a)), []).extend(deps)
        values = []  # per root: dict index -> Tag | zero
        ids = []  # per root: int array of element ids
        flat = []  # id -> (root, index)
        pre = []
        for s, root in enumerate(roots_spec):
            full = tuple(root["shape"]) + (root.get("K", K),) * root["ninf"]
            n = int(np.prod(full)) if full else 1
            base = len(flat)
            arr = np.arange(base, base + n).reshape(full)
            ids.append(arr)
            rr = np.random.default_rng(root["vseed"])
            absent = rr.random(n) < root["p_absent"]
            none_valued = rr.random(n) < root.get("p_none", 0.0)  # None is a perfectly legal element value
            exotic = rr.random(n) < root.get("p_exotic", 0.0)  # ... and so are arrays of any shape, sequences, numpy scalars, strings
            vals = {}
            for k, index in enumerate(np.ndindex(*full) if full else [()]):
                flat.append((s, tuple(int(i) for i in index)))
                vals[tuple(int(i) for i in index)] = zero if absent[k] else (None if none_valued[k] else
                                                                    self._exotic(rr, k) if exotic[k] else Tag(s, index, "E"))
            pdata = {}
            for index, is_zero in root["pre"]:
                index = tuple(index)
                if self._valid(roots_spec, s, index):
                    v = zero if is_zero else Tag(s, index, "D")
                    vals[index] = v
                    pdata[index] = v
            values.append(vals)
            pre.append(pdata)
        # good = least fixed point; pre-cached entries never evaluate, hence always good
        good = set()
        allnodes = [(s, i) for s in range(nroots) for i in values[s]]
        changed = True
        deps_of = lambda node: [] if node[1] in pre[node[0]] else edges.get(node, [])  # noqa: E731
        pending_nodes = [n for n in allnodes if deps_of(n)]
        good.update(n for n in allnodes if not deps_of(n))
        while changed:
            changed = False
            rest = []
            for n in pending_nodes:
                if all(d in good for d in deps_of(n)):
                    good.add(n)
                    changed = True
                else:
                    rest.append(n)
            pending_nodes = rest
        bad_ids = {k for k, node in enumerate(flat) if node not in good}
        # cycle-length probes
        for e in case["edges"]:
            s, a, t, b = e[:4]
            if (s, tuple(a)) == (t, tuple(b)) and not (len(e) > 4 and e[4] == "kv"):
                bump("cycle_len1")
        if case.get("wide"):
            bump("wide_world")
        ncyc = len(bad_ids)
        if ncyc:
            bump("worlds_with_cycle")

        # --- real objects
        calls = {}  # (s, index) -> number of eval calls
        real_roots = []
        kept = {}  # views created and kept by element evals

        talkative = bool(case.get("talkative"))

        def make_eval(s):
            def ev(*index):
                index = tuple(int(i) for i in index)
                calls[(s, index)] = calls.get((s, index), 0) + 1
                events.append(("eval", s, index))
                if talkative:
                    bump("eval_formats_series")
                    repr(real_roots[s]), str(real_roots[s]), f"{real_roots[s]}"
                for t, b in requests.get((s, index), ()):
                    bump("dep_nested_eval")
                    if b and b[0] == "keep":
                        if (t, b[1]) not in kept:
                            kept[(t, b[1])] = real_roots[t][b[1]]  # all Python ints: a scalar view, made while (s, index) is in flight
                            bump("kept_view_created")
                        continue
                    if b and b[0] == "view":
                        bump("dep_view_eval")
                        real_roots[t][b[1]][b[2]]
                        continue
                    if isinstance(b[-1], slice):
                        bump("dep_slice_eval")
                    real_roots[t][b]
                return values[s][index]

            return ev

        class CallerSeries(BlockSeries):
            """The caller's own subclass with its own constructor signature; views of it are ordinary series."""

            def __init__(self, spec, evaluate, known):
                super().__init__(eval=evaluate, data=known, shape=tuple(spec["shape"]), n_infinite=spec["ninf"], name=spec["name"])

        for s, root in enumerate(roots_spec):
            if case.get("subclassed"):
                bump("subclassed_roots")
                real_roots.append(CallerSeries({**root, "name": f"R{s}"}, make_eval(s), dict(pre[s]) or None))
                continue
            real_roots.append(BlockSeries(eval=make_eval(s), data=dict(pre[s]) or None, shape=tuple(root["shape"]),
                                          n_infinite=root["ninf"], name=f"R{s}"))
        targets = {("r", s): (real_roots[s], ids[s], len(roots_spec[s]["shape"]), roots_spec[s]["ninf"], "root", ()) for s in range(nroots)}
        all_series = list(real_roots)

        violation = None
        states = []
        value_ops = 0
        cats = set()
        array_or_view = False

        def fail(cls, detail):
            nonlocal violation
            if violation is None:
                violation = {"class": cls, "detail": detail}

        pops = {}  # node -> number of times it was evicted through pop while cached
        for opi, op in enumerate(case["ops"]):
            if violation:
                break
            if op[0] in ("pop", "in"):
                _, ps, pindex = op
                pindex = tuple(pindex)
                if ps >= nroots or not self._valid(roots_spec, ps, pindex) or pindex in pre[ps]:
                    continue
                series = real_roots[ps]
                calls_before = dict(calls)
                was_cached = pindex in series._data
                others = {id(x): dict(x._data) for x in all_series}
                if op[0] == "pop":
                    default = object()
                    res = series.pop(pindex, default)
                    if was_cached:
                        pops[(ps, pindex)] = pops.get((ps, pindex), 0) + 1
                        bump("pop_cached")
                        if res is not values[ps][pindex]:
                            fail("pop-value", f"op#{opi} pop R{ps}{pindex}: expected the cached element {values[ps][pindex]!r}, got {self._show(res)}")
                    else:
                        bump("pop_absent")
                        if res is not default:
                            fail("pop-value", f"op#{opi} pop R{ps}{pindex}: nothing cached, expected the default, got {self._show(res)}")
                    if pindex in series._data:
                        fail("pop-kept", f"op#{opi} pop R{ps}{pindex}: the element is still cached")
                    others[id(series)].pop(pindex, None)
                    events.append(("op", opi, "pop", ps, pindex, was_cached))
                else:
                    # only what the property speaks about is judged here: the test evaluates nothing and leaves the memo alone
                    # (what the answer means for products - "known to be absent" - is C18's matter)
                    res = pindex in series
                    bump("contains_true" if res else "contains_false")
                    if not isinstance(res, (bool, np.bool_)):
                        fail("contains", f"op#{opi} {pindex} in R{ps}: not a truth value: {res!r}")
                    events.append(("op", opi, "in", ps, pindex, bool(res)))
                if calls != calls_before:
                    fail("memo-interface-evaluates", f"op#{opi} {op[0]} R{ps}{pindex}: evaluated elements")
                for x in all_series:
                    if id(x) in others and x._data != others[id(x)]:
                        fail("memo-interface-side-effect", f"op#{opi} {op[0]} R{ps}{pindex}: changed the memo of {x.name} beyond the popped entry")
                continue
            if op[0] == "kidx":
                _, ks, kfin, korders = op
                key = (ks, tuple(kfin))
                if key not in kept or ks >= nroots:
                    continue
                nf = len(roots_spec[ks]["shape"])
                Dk = ids[ks][tuple(kfin) + (slice(None),) * roots_spec[ks]["ninf"]]
                targets[("k",) + key] = (kept[key], Dk, 0, roots_spec[ks]["ninf"], "scalarview", ())
                if kept[key] not in all_series:
                    all_series.append(kept[key])
                op = ["idx", ("k",) + key, korders, -1]
                bump("op_on_kept_view")
            _, tgt, item_spec, label = op[:4]
            bare = "bare" in op[4:]
            mutate_after = "mut" in op[4:]
            tgt = tuple(tgt)
            if tgt not in targets:
                continue
            series, D, nfin, ninf, kind, packed_anc = targets[tgt]
            item = _item_to_py(item_spec)
            if any(isinstance(c, np.integer) for c in item):
                bump("npint_index")
            if any(isinstance(c, (np.integer, np.ndarray)) and np.size(c) and np.issubdtype(np.asarray(c).dtype, np.integer)
                   and np.max(c) == np.iinfo(np.asarray(c).dtype).max for c in item):
                bump("narrow_int_at_type_max")
            if any(isinstance(c, np.ndarray) and c.ndim == 0 for c in item):
                bump("zero_dim_array_index")
            if any(isinstance(c, list) and c and isinstance(c[0], list) for c in item):
                bump("nested_list_index")
            calls_before = dict(calls)
            cached_before = {id(x): set(x._data) for x in all_series}
            # ---------------- prediction
            expect = None  # ("view", Dv) | ("IndexError", why) | ("RuntimeError",) | ("value", ids) | ("either", ids)
            if kind == "oobview":
                # a view of a block that does not exist: numpy says IndexError; it must never serve an element
                bump("op_on_oob_view")
                try:
                    res = series[item]
                except IndexError:
                    events.append(("op", opi, "oobview-use-IndexError"))
                except Exception as e:
                    fail("oob-view", f"op#{opi} {tgt}{item_spec}: a view of an out-of-bounds block raised {type(e).__name__}: {e} (numpy: IndexError)")
                else:
                    if isinstance(res, BlockSeries):
                        events.append(("op", opi, "oobview-view"))
                    elif isinstance(res, np.ma.MaskedArray) and res.size == 0:
                        events.append(("op", opi, "oobview-empty"))  # an empty selection touches no element: nothing is served
                    else:
                        fail("oob-view", f"op#{opi} {tgt}{item_spec}: a view of an out-of-bounds block returned {self._show(res)} (numpy: IndexError)")
                if calls != calls_before:
                    fail("oob-view", f"op#{opi} {tgt}{item_spec}: a view of an out-of-bounds block evaluated elements")
                continue
            if len(item) == nfin and ninf:
                try:
                    Dv = D[item + (slice(None),) * ninf]
                    expect = ("view", Dv)
                except IndexError:
                    # an all-integer out-of-bounds view may fail at creation or only on use
                    expect = ("IndexError", "finite") if not all(isinstance(c, int) for c in item) else ("oobview",)
            elif len(item) != nfin + ninf:
                expect = ("IndexError", "length")
                bump("wrong_length")
            else:
                why = self._order_fault(item[nfin:])
                if why:
                    expect = ("IndexError", "order:" + why)
                else:
                    try:
                        sel = D[item]
                    except IndexError:
                        expect = ("IndexError", "finite")
                    else:
                        must = set(np.asarray(sel).ravel().tolist())
                        may = set(must)
                        for Dp, nfin_p in packed_anc:
                            orders_sel = Dp[(slice(None),) * nfin_p + item[nfin:]]
                            may.update(np.asarray(orders_sel).ravel().tolist())
                        if must & bad_ids:
                            expect = ("RuntimeError",)
                        elif may & bad_ids:
                            expect = ("either", sel)
                        else:
                            expect = ("value", sel)
            # ---------------- real call
            try:
                if bare and len(item) == 1:
                    bump("bare_index")
                    res = series[item[0]]
                else:
                    res = series[item]
                got = ("ok", res)
            except IndexError as e:
                got = ("IndexError", e)
            except RuntimeError as e:
                got = ("RuntimeError", e)
            except RecursionError as e:  # subclass of RuntimeError; kept separate on purpose (never reached)
                got = ("RecursionError", e)
            except Exception as e:
                got = (type(e).__name__, e)
            if isinstance(got[1], RecursionError):
                got = ("RecursionError", got[1])
            desc = f"op#{opi} {tgt}{item_spec}"
            # ---------------- compare
            if expect[0] == "oobview":
                # numpy raises IndexError; the library may raise at creation or hand out a view that raises on every use
                bump("oob_scalar_view")
                if got[0] == "IndexError":
                    events.append(("op", opi, "oobview-IndexError"))
                elif got[0] == "ok" and isinstance(got[1], BlockSeries):
                    targets[("v", label)] = (got[1], None, 0, ninf, "oobview", ())
                    events.append(("op", opi, "oobview-created"))
                else:
                    fail("oob-view", f"{desc}: out-of-bounds block index, expected IndexError or a view, got {got[0]}: {self._show(got[1])}")
                if calls != calls_before:
                    fail("view-evaluates", f"{desc}: creating a view evaluated elements")
            elif expect[0] == "skip":
                events.append(("op", opi, "skip"))
            elif expect[0] == "view":
                cats.add("view")
                if got[0] != "ok" or not isinstance(got[1], BlockSeries):
                    fail("view-creation", f"{desc}: expected a view, got {got[0]}: {got[1]!r}")
                else:
                    V = got[1]
                    Dv = expect[1]
                    if tuple(V.shape) != tuple(Dv.shape[: Dv.ndim - ninf]) or V.n_infinite != ninf:
                        fail("view-shape", f"{desc}: view shape {V.shape}/{V.n_infinite}, numpy gives {Dv.shape[:Dv.ndim - ninf]}/{ninf}")
                    vkind = "scalarview" if all(isinstance(c, int) for c in item) else "packed"
                    anc = packed_anc + (((Dv, Dv.ndim - ninf),) if vkind == "packed" else ())
                    targets[("v", label)] = (V, Dv, Dv.ndim - ninf, ninf, vkind, anc)
                    all_series.append(V)
                    if mutate_after:
                        for comp_ in item:
                            if isinstance(comp_, np.ndarray) and comp_.ndim:
                                bump("index_array_mutated_after_view")
                                comp_[...] = 0
                            if isinstance(comp_, list):
                                bump("index_list_mutated_after_view")
                                for inner_ in comp_:
                                    if isinstance(inner_, list):  # the rows of a nested index list are the caller's lists too
                                        bump("nested_index_list_mutated_after_view")
                                        inner_[:] = [0] * len(inner_)
                                comp_.reverse()
                                comp_.append(0)
                                if comp_ and isinstance(comp_[0], int):
                                    comp_[0] = 0
                    bump("op_view_create")
                    if kind != "root":
                        bump("view_of_view")
                    array_or_view = True
                    events.append(("op", opi, "view", tuple(Dv.shape)))
                if calls != calls_before:
                    fail("view-evaluates", f"{desc}: creating a view evaluated elements")
            elif expect[0] == "IndexError":
                cats.add("err")
                bump("expect_indexerror_" + ("order" if expect[1].startswith("order") else "finite" if expect[1] == "finite" else "length"))
                if got[0] != "IndexError":
                    what = f"returned {self._show(got[1])}" if got[0] == "ok" else f"raised {got[0]}: {got[1]}"
                    fail("indexerror-" + expect[1].split(":")[0], f"{desc}: expected IndexError ({expect[1]}), {what}")
                elif expect[1].startswith("order"):
                    if calls != calls_before or any(set(x._data) != cached_before[id(x)] for x in all_series if id(x) in cached_before):
                        fail("indexerror-memo-changed", f"{desc}: rejected order request changed the memo")
                events.append(("op", opi, "IndexError", expect[1]))
            elif expect[0] == "RuntimeError":
                cats.add("cycle")
                bump("expect_runtimeerror_cycle")
                if got[0] != "RuntimeError":
                    what = f"returned {self._show(got[1])}" if got[0] == "ok" else f"raised {got[0]}: {got[1]}"
                    fail("cycle-not-runtimeerror", f"{desc}: ill-founded element requested, expected RuntimeError, {what}")
                events.append(("op", opi, "RuntimeError"))
            else:
                sel = expect[1]
                if got[0] == "RuntimeError" and expect[0] == "either":
                    events.append(("op", opi, "RuntimeError-sibling"))
                    bump("sibling_cycle_raise")
                elif got[0] != "ok":
                    fail("unexpected-raise", f"{desc}: expected a value, raised {got[0]}: {got[1]}")
                else:
                    res = got[1]
                    value_ops += 1
                    if kind != "root":
                        bump("op_on_view")
                        array_or_view = True
                        if packed_anc:
                            bump("op_on_packed_view")
                    if isinstance(sel, np.ndarray):
                        cats.add("array")
                        bump("op_array")
                        array_or_view = True
                        self._cmp_array(desc, res, sel, flat, values, zero, fail, bump)
                        events.append(("op", opi, "arr", tuple(sel.shape), tuple(np.asarray(sel).ravel().tolist())))
                    else:
                        cats.add("scalar")
                        bump("op_scalar")
                        s, index = flat[int(sel)]
                        want = values[s][index]
                        if res is not want:
                            fail("scalar-value", f"{desc}: expected element {want!r}, got {self._show(res)}")
                        if want is None:
                            bump("none_valued_read")
                        if index in pre[s]:
                            bump("precached_read")
                        events.append(("op", opi, "scalar", int(sel)))
            # ---------------- invariants after every step
            for node, c in calls.items():
                if c > 1 + pops.get(node, 0) and node in good and c != calls_before.get(node, 0):
                    fail("evaluated-twice", f"{desc}: element {node} of a well-founded definition evaluated {c} times ({pops.get(node, 0)} evictions)")
                if c != calls_before.get(node, 0) and node[1] in cached_before[id(real_roots[node[0]])]:
                    fail("cached-evaluated", f"{desc}: element {node} was cached and has been evaluated again")
                if node[1] in pre[node[0]]:
                    fail("precached-evaluated", f"{desc}: pre-cached element {node} was evaluated")
            sig = 0
            for xi, x in enumerate(all_series):
                for k, v in x._data.items():
                    if v is PENDING:
                        fail("pending-left", f"{desc}: in-flight marker left in {x.name}[{k}]")
                sig ^= hash((xi, frozenset(x._data)))
            states.append(format(sig & 0xFFFFFFFFFFFF, "x"))

        # a deep copy of a series is a series with the same elements: absent stays absent (the sentinels are singletons)
        if violation is None:
            import copy

            for s_, root_ in enumerate(real_roots):
                try:
                    twin = copy.deepcopy(root_)
                except Exception:  # noqa: BLE001 - exotic element values may refuse to be copied
                    continue
                bump("deepcopy_checked")
                for k_, v_ in root_._data.items():
                    if (v_ is zero) != (twin._data.get(k_) is zero):
                        fail("copy-forges-sentinel", f"copy.deepcopy(R{s_}): cached element {k_} is {'absent' if v_ is zero else 'present'} in the original and "
                                                     f"{'absent' if twin._data.get(k_) is zero else 'present (a second Zero instance)'} in the copy")
                        break

        # cycle length probes (2, 3) – structural, from the edge list
        es = {((e[0], tuple(e[1])), (e[2], tuple(e[3]))) for e in case["edges"] if not (len(e) > 4 and e[4] == "kv")}
        for (u, v) in es:
            if u != v and (v, u) in es:
                bump("cycle_len2")
            for (v2, w) in es:
                if v2 == v and w != u and w != v and (w, u) in es and u != v:
                    bump("cycle_len3")
        if counters.get("op_array"):
            pass
        digest = batch.digest_of(events)
        return {"violation": violation, "digest": digest, "events": len(events),
                "nontrivial": value_ops >= 3 and array_or_view and len(cats) >= 2, "counters": counters, "states": states}

    @staticmethod
    def _valid(roots_spec, s, index):
        root = roots_spec[s]
        full = tuple(root["shape"]) + (root.get("K", K),) * root["ninf"]
        return len(index) == len(full) and all(0 <= i < d for i, d in zip(index, full))

    @staticmethod
    def _order_fault(orders):
        for o in orders:
            if isinstance(o, slice):
                if o.stop is None:
                    return "infinite"
                if (o.start is not None and o.start < 0) or o.stop < 0:
                    return "negative"
            elif isinstance(o, (list, np.ndarray)):
                if np.size(o) and np.min(np.asarray(o)) < 0:
                    return "negative"
            elif o < 0:
                return "negative"
        return None

    @staticmethod
    def _show(x):
        r = repr(x)
        return r if len(r) < 160 else r[:160] + "..."

    @staticmethod
    def _exotic(rr, k):
        kind = int(rr.integers(0, 8))
        if kind == 0:
            return rr.normal(size=(int(rr.integers(1, 4)), int(rr.integers(1, 4))))  # a block matrix, what the library is used with
        if kind == 1:
            return np.array(float(k))  # 0-d array
        if kind == 2:
            return np.empty((0,))
        if kind == 3:
            return [k, k + 1]
        if kind == 4:
            return (k, "t")
        if kind == 5:
            return np.float64(k + 0.5)
        if kind == 6:
            return f"element-{k}"
        return rr.normal(size=(int(rr.integers(1, 4)),))

    def _cmp_array(self, desc, res, sel, flat, values, zero, fail, bump):
        if not isinstance(res, np.ma.MaskedArray):
            fail("array-type", f"{desc}: expected masked array of shape {sel.shape}, got {type(res).__name__}")
            return
        if res.shape != sel.shape:
            fail("array-shape", f"{desc}: result shape {res.shape}, numpy gives {sel.shape}")
            return
        mask = np.ma.getmaskarray(res)
        data = res.data
        anymask = False
        for pos in np.ndindex(*sel.shape):
            s, index = flat[int(sel[pos])]
            want = values[s][index]
            if want is zero:
                anymask = True
                if not mask[pos]:
                    fail("array-mask", f"{desc}: absent element at {pos} not masked")
                    return
            else:
                if mask[pos]:
                    fail("array-mask", f"{desc}: present element at {pos} is masked")
                    return
                if data[pos] is not want:
                    fail("array-value", f"{desc}: at {pos} expected {want!r}, got {self._show(data[pos])}")
                    return
        if anymask:
            bump("masked_result")

    # ------------------------------------------------------------------ shrinking / known findings
    def shrink_candidates(self, case):
        for ops in dd_list(case["ops"]):
            yield {**case, "ops": ops}
        for edges in dd_list(case["edges"]):
            yield {**case, "edges": edges}
        for s, root in enumerate(case["roots"]):
            if root["pre"]:
                roots = [dict(r) for r in case["roots"]]
                roots[s]["pre"] = []
                yield {**case, "roots": roots}
            if root["p_absent"]:
                roots = [dict(r) for r in case["roots"]]
                roots[s]["p_absent"] = 0.0
                yield {**case, "roots": roots}

    def match_known(self, case, violation):
        if case.get("witness"):
            return case["witness"] if violation["class"] == "known-witness" else None
        return None

    def witnesses(self):
        return {fid: {"witness": fid} for fid in ['C19/packed-view-evaluates-siblings']}


PROP = Prop()
