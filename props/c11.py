"""C11: an exception raised by a user callback leaves the computation consistent and reusable."""
import itertools

from props.graph import FAULT_KINDS, GraphProp

KINDS = ["SimFault", "RuntimeError", "MemoryError", "KeyboardInterrupt", "SimBaseFault", "KeyError", "StopIteration", "ExoticRuntimeError", "TypeError"]
MORE_KINDS = ["ValueError", "SystemExit", "IndexError", "AttributeError", "ZeroDivisionError", "AssertionError", "OSError",
              "LookupError", "NotImplementedError", "RecursionError", "GeneratorExit", "ExoticError"]


class Prop(GraphProp):
    id = "C11"
    level = "fault_enumeration"
    check_cone = False
    check_mutation = False
    final_sweep = "all"
    tiers = {"quick": {"runs": 4000, "budget_s": 40, "chunk": 8},
             "thorough": {"runs": 400000, "budget_s": 900, "chunk": 16}}
    rule = ("(a) exhaustive part: for a fixed family of small worlds x schedules, every callback invocation (Hamiltonian "
            "term, Sylvester solver, multiplication) of every operation x {SimFault(Exception), RuntimeError, MemoryError, "
            "KeyboardInterrupt, SimBaseFault(BaseException), KeyError, StopIteration, ExoticRuntimeError (a RuntimeError subclass with a three-argument constructor), TypeError} is injected as a single fault, the schedule continues and finally every element is "
            "re-requested; (b) seeded part: random worlds and schedules with 1-4 faults, transient or sticky (5% of the runs: a storm of 12-70 consecutive failures of one site under retries; the same site "
            "fails again on retry), placed only where the clean run of the same schedule shows a callback invocation, incl. "
            "faults during block_diagonalize(...) itself, in a second computation sharing the input, in chained "
            "computations, in derived client products, in slices and views.  Oracle: the faulted request raises with the "
            "injected exception reachable from the raised one; no in-flight marker after any step; every later request and "
            "the final sweep equal a fresh undisturbed computation.  non-trivial = a fault fired while at least two "
            "elements were in flight (nesting depth >= 2) and at least 3 value-returning requests followed; distinct = "
            "distinct sha256 of the event log")
    probes = ["fmt_implicit", "kpm_world", "fault_SimBaseFault", "fault_SystemExit", "fault_SimFault", "fault_RuntimeError", "fault_MemoryError", "fault_KeyboardInterrupt", "fault_site_H",
              "fault_site_S", "fault_site_M", "fault_site_Hc", "fault_site_Mw", "fault_sticky_rehit", "fault_storm_run", "fault_depth_ge2", "fault_in_build",
              "recompute_after_eviction", "op_raised_by_fault", "final_checked", "multi_comp_world", "chain_world",
              "fault_in_array_op", "fault_in_view_op"]
    assumptions = ["faults are raised only from simulator-owned callbacks (the property speaks of user-supplied callbacks); "
                   "asynchronous interrupts between arbitrary bytecodes are outside the stated property",
                   "oracle: a fresh undisturbed computation of the same world in the same process"]
    fixed_description = ("single-fault enumeration: every callback invocation index of every operation of the fixed "
                         "(world, schedule) family x 9 exception kinds; thorough tier additionally all pairs of faults in "
                         "different operations for four of the worlds")

    profile = {"p_illposed": 0.0, "max_ops": 30, "p_peek": 0.0, "p_aux_shared": 0.0}

    # ------------------------------------------------------------------ seeded part
    def generate(self, r, tier, idx):
        profile = self.profile
        if r.random() < 0.06:
            # focus: sparse worlds whose terms mix dense and sparse arrays, with full / selective diagonalisation
            profile = {**self.profile, "domains": ["sparse"], "force_mixed_fd": True}
        w = self.gen_world(r, tier, profile)
        ops = self.gen_ops(r, w, tier, self.profile)
        clean = super().execute({"world": w, "ops": ops, "faults": []})
        ticks = {k: v for k, v in clean["op_ticks"].items() if isinstance(k, int) and v > 0}
        faults = []
        if ticks:
            nf = r.choice([1, 1, 2, 2, 3, 4])
            for _ in range(nf):
                op = r.choice(sorted(ticks))
                k = r.randrange(ticks[op])
                faults.append({"op": op, "k": k, "kind": r.choice(KINDS + ["SimFault"] + MORE_KINDS),
                               "persist": r.choice([1, 1, 1, 2, 3])})
            storm = 0
            if r.random() < 0.05:
                # a storm: one site keeps failing while the caller retries the same request many times, then it recovers
                # (anything a failure leaves behind that only adds up - counters, depth guards, grown tables - shows here)
                storm = r.choice([12, 20, 40, 70])
                faults = [{**faults[0], "persist": storm, "kind": r.choice(["RuntimeError", "RuntimeError", "ExoticRuntimeError", faults[0]["kind"]])}]
            # retry the faulted request right away in most runs
            if storm or r.random() < 0.7:
                fops = {f["op"] for f in faults}
                new_ops, newpos = [], {}
                for i, op in enumerate(ops):
                    newpos[i] = len(new_ops)
                    new_ops.append(op)
                    if i in fops and op[0] != "view":
                        new_ops.extend(list(op) for _ in range(storm + 1 if storm else 1))
                ops = new_ops
                faults = [{**f, "op": newpos[f["op"]]} for f in faults]
        return {"world": w, "ops": ops, "faults": faults}

    def execute(self, case):
        out = super().execute(case)
        c = out["counters"]
        # which kind of operation was hit (from the plan)
        if any(f.get("persist", 1) >= 12 for f in case.get("faults", ())):
            c["fault_storm_run"] = c.get("fault_storm_run", 0) + 1
        for f in case.get("faults", ()):
            if f["op"] < len(case["ops"]):
                kind = case["ops"][f["op"]][0]
                if kind == "build":
                    c["fault_in_build"] = c.get("fault_in_build", 0) + 1
                elif kind == "sl":
                    c["fault_in_array_op"] = c.get("fault_in_array_op", 0) + 1
                elif kind == "vget":
                    c["fault_in_view_op"] = c.get("fault_in_view_op", 0) + 1
        return out

    def nontrivial(self, case, counters, op_kinds, value_ops, special, depth_at_fault):
        return bool(depth_at_fault) and max(depth_at_fault) >= 2 and value_ops >= 3

    # ------------------------------------------------------------------ exhaustive part
    def fixed_family(self, tier):
        base = {"domain": "dense", "vseed": 12345, "fmt": "blocked", "real": False, "p_zero_block": 0.0, "deg": False,
                "complex_e": False, "derived": False, "internals": False}
        comp = {"herm": True, "fd": None, "solver": "default", "d0_herm": False}
        fam = [
            {**base, "herm": True, "sizes": [1, 2], "npert": 1, "terms": [[1], [2]], "comps": [comp]},
            {**base, "herm": True, "sizes": [2, 1, 1], "npert": 1, "terms": [[1]], "comps": [comp]},
            {**base, "herm": True, "sizes": [1, 1], "npert": 2, "terms": [[0, 1], [1, 0]], "comps": [comp]},
            {**base, "herm": False, "sizes": [1, 2], "npert": 1, "terms": [[1]], "comps": [{**comp, "herm": False}]},
            {**base, "herm": False, "sizes": [1, 1, 1], "npert": 1, "terms": [[1], [2]], "comps": [{**comp, "herm": False}]},
            {**base, "herm": True, "sizes": [2, 2], "npert": 1, "terms": [[1]], "comps": [{**comp, "fd": [0]}]},
            {**base, "herm": True, "sizes": [3], "npert": 1, "terms": [[1]], "comps": [{**comp, "fd": {"blocks": [0], "mseed": 7}}]},
            {**base, "herm": True, "sizes": [1, 2], "npert": 1, "terms": [[1]], "fmt": "scalar_idx", "comps": [comp, {**comp, "herm": False}]},
            {**base, "herm": True, "sizes": [1, 1], "npert": 1, "terms": [[1]], "derived": True, "comps": [{**comp, "d0_herm": True}]},
            {**base, "herm": True, "sizes": [1, 2], "npert": 1, "terms": [[1]], "comps": [comp, {**comp, "fd": [0, 1], "chain": 0}]},
            {**base, "herm": True, "domain": "sparse", "fmt": "scalar_idx", "sizes": [2, 2], "npert": 1, "terms": [[1]],
             "comps": [{**comp, "solver": "legacy"}, {**comp, "solver": "custom"}]},
            {**base, "herm": True, "domain": "tracer", "sizes": [1, 1], "npert": 1, "terms": [[1], [2]], "internals": True,
             "comps": [{**comp, "two_block_optimized": True, "commuting_blocks": [True, True]}]},
            {**base, "herm": True, "domain": "sq", "sq_modes": 1, "sizes": [1, 1], "npert": 1, "terms": [[1]], "cap": 2, "comps": [comp]},
            {**base, "herm": True, "domain": "sym", "sizes": [1, 2], "npert": 1, "terms": [[1]], "real": True,
             "comps": [{**comp, "fd": [1]}]},
            {**base, "herm": True, "sizes": [1, 3], "npert": 1, "terms": [[1]], "fmt": "implicit", "cap": 2, "comps": [{**comp, "kpm": False}]},
            {**base, "herm": True, "domain": "wrapped", "fmt": "scalar_vecs", "sizes": [1, 2], "npert": 1, "terms": [[1]], "cap": 2,
             "comps": [{**comp, "solver": "custom"}]},
            # one sympy expression (Taylor-expanded by the library) containing a function with a derivative rule of the caller
            {**base, "herm": True, "domain": "sym", "fmt": "sympy_expr", "sizes": [1, 1], "npert": 1, "terms": [[1], [2]], "real": True,
             "fdiff_fn": True, "comps": [comp]},
        ]
        if tier == "thorough":
            fam += [
                {**base, "herm": True, "sizes": [1, 1, 2], "npert": 2, "terms": [[0, 1], [1, 0], [1, 1]], "comps": [comp]},
                {**base, "herm": True, "domain": "sparse", "sizes": [2, 2], "npert": 1, "terms": [[1], [2]], "comps": [comp]},
                {**base, "herm": False, "sizes": [2, 1], "npert": 2, "terms": [[0, 1], [1, 0]], "fmt": "scalar_vecs", "comps": [{**comp, "herm": False}]},
                {**base, "herm": True, "sizes": [1, 2], "npert": 1, "terms": [[1]], "internals": True, "comps": [comp]},
                {**base, "herm": True, "sizes": [2, 2], "npert": 1, "terms": [[1]], "comps": [{**comp, "solver": "custom"}, {**comp, "solver": "legacy"}]},
                {**base, "herm": True, "sizes": [1, 3], "npert": 1, "terms": [[1]], "fmt": "implicit", "comps": [{**comp, "kpm": False}]},
                {**base, "herm": True, "sizes": [1, 1, 3], "npert": 1, "terms": [[1]], "fmt": "implicit", "comps": [{**comp, "kpm": True}]},
            ]
        return fam

    def fixed_cases(self, tier, seed):
        from simkit import rng

        cases, storms = [], []
        for wi, w in enumerate(self.fixed_family(tier)):
            w = {**w, "cap": w.get("cap", 3 if w["npert"] == 1 else 2)}
            nsched = 2 if tier == "quick" else 4
            for si in range(nsched):
                r = rng.rnd(seed, "C11", "fixed", wi, si)
                ops = self.gen_ops(r, w, tier, {"max_ops": 10})
                # make sure every computation does real work inside the faulted part of the schedule
                nb_, top = len(w["sizes"]), [w["cap"]] + [0] * (w["npert"] - 1)
                low = [max(w["cap"] - 1, 1)] + [0] * (w["npert"] - 1)
                lead = []
                for c in range(len(w["comps"])):
                    lead += [["get", c, "U", 0, nb_ - 1, low], ["get", c, "H_tilde", 0, 0, top]]
                nbuild = sum(1 for op in ops if op[0] == "build")
                ops = ops[:nbuild] + (lead if si % 2 == 0 else lead[::-1]) + ops[nbuild:]
                clean = GraphProp.execute(self, {"world": w, "ops": ops, "faults": []})
                if clean["violation"]:
                    cases.append((f"fixed-{wi}-{si}-clean", {"world": w, "ops": ops, "faults": []}))
                    continue
                ticks = sorted((k, v) for k, v in clean["op_ticks"].items() if isinstance(k, int))
                for op, n in ticks:
                    for k in range(n):
                        for kind in KINDS:
                            cases.append((f"fixed-{wi}-{si}-{op}-{k}-{kind}",
                                          {"world": w, "ops": ops, "faults": [{"op": op, "k": k, "kind": kind, "persist": 1}]}))
                if wi < 4 and si == 0 and any(n for _, n in ticks):
                    # storms: the last callback of the busiest operation fails 100 times in a row while the caller retries, then recovers.
                    # Listed first, so that they run in workers that have executed nothing else.
                    op, n = max(ticks, key=lambda t: (t[1], -t[0]))
                    if ops[op][0] != "view":
                        sops = ops[: op + 1] + [list(ops[op]) for _ in range(100)] + ops[op + 1:]
                        for kind in ("RuntimeError", "SimFault"):
                            storms.append((f"storm-{wi}-{si}-{op}-{n - 1}-{kind}",
                                           {"world": w, "ops": sops, "faults": [{"op": op, "k": n - 1, "kind": kind, "persist": 100}]}))
                if tier == "thorough" and wi < 4 and si == 0:
                    # all pairs of single faults in different operations (second fault lands in the recovery path)
                    sites = [(op, k) for op, n in ticks for k in range(n)]
                    for a in range(len(sites)):
                        for b in range(a + 1, len(sites)):
                            if sites[a][0] == sites[b][0]:
                                continue
                            for kinds in (("SimFault", "KeyboardInterrupt"), ("RuntimeError", "SimFault")):
                                cases.append((f"pair-{wi}-{si}-{sites[a]}-{sites[b]}-{kinds[0]}",
                                              {"world": w, "ops": ops, "faults": [
                                                  {"op": sites[a][0], "k": sites[a][1], "kind": kinds[0], "persist": 1},
                                                  {"op": sites[b][0], "k": sites[b][1], "kind": kinds[1], "persist": 1}]}))
        return storms + cases


PROP = Prop()
