#!/venv/bin/python
"""Development aid (not a check): which lines of pymablock do the simulated runs reach?

    PYTHONHASHSEED=0 ./covreach.py C19 0:300 [thorough]   -> prints per-file missed line ranges

Runs the given run indices of one property in this one process under coverage.py and
reports the lines of the library that were never executed ("measure reach": a region that
stays dark under every property's workload is a workload gap, or code no claimed property
depends on).  Output is kept in evidence-free text form; nothing here decides a property.
"""
import os
import sys

HERE = os.path.dirname(os.path.abspath(__file__))
sys.path.insert(0, HERE)
os.environ.setdefault("OMP_NUM_THREADS", "1")
os.environ.setdefault("OPENBLAS_NUM_THREADS", "1")

import coverage  # noqa: E402

from simkit import boot  # noqa: E402


def main():
    pid, rng = sys.argv[1], sys.argv[2]
    tier = sys.argv[3] if len(sys.argv) > 3 else "quick"
    a, b = map(int, rng.split(":"))
    src = os.environ.get("PYMABLOCK_SRC", "/repo")
    cov = coverage.Coverage(data_file=None, include=[src + "/pymablock/*.py"], omit=["*/tests/*"])
    cov.start()
    boot.boot()
    import importlib

    from simkit import batch
    import simmain

    prop = importlib.import_module(simmain.PROPS[pid]).PROP
    seed = int(os.environ.get("VERIF_SEED", "0"))
    errs = 0
    for idx in range(a, b):
        case = batch.gen_case(prop, seed, idx, tier)
        out, err = batch.run_case(prop, case)
        errs += bool(err)
    cov.stop()
    print(f"{pid} runs {a}:{b} tier={tier} harness_errors={errs}")
    data = cov.get_data()
    for f in sorted(data.measured_files()):
        _, stmts, _, missing, fmt = cov.analysis2(f)
        print(f"{os.path.basename(f):32s} stmts={len(stmts):5d} missed={len(missing):5d}  {fmt}")


if __name__ == "__main__":
    main()
