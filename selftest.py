#!/venv/bin/python
"""Development self-tests (not registered checks): mutant kill matrix and determinism digests.

  ./selftest.py mutants [ids...]      apply each mutant to a scratch copy of /repo, run the quick check(s)
  ./selftest.py determinism [props]   digests twice / fresh interpreter / other PYTHONHASHSEED / worker counts
"""
import json
import os
import shutil
import subprocess
import sys
import tempfile
import time

HERE = os.path.dirname(os.path.abspath(__file__))
SCRATCH = "/var/tmp/verif-selftest"


def run_check(prop, src, runs=None, extra_env=None, timeout=900):
    env = dict(os.environ)
    env["PYMABLOCK_SRC"] = src
    env["VERIF_EVIDENCE_DIR"] = os.path.join(SCRATCH, "evidence")
    env["VERIF_REPLAY_DIR"] = os.path.join(SCRATCH, "replays")
    env["VERIF_SHRINK_S"] = "20"
    if runs:
        env["VERIF_RUNS"] = str(runs)
    env.update(extra_env or {})
    t = time.time()
    p = subprocess.run([os.path.join(HERE, "check"), prop, "--tier", "quick"], capture_output=True, text=True, env=env, timeout=timeout)
    return p.returncode, p.stdout + p.stderr, time.time() - t


def mutants(ids):
    muts = json.load(open(os.path.join(HERE, "mutants", "mutants.json")))
    if ids:
        muts = [m for m in muts if m["id"] in ids or any(p in ids for p in m["props"])]
    os.makedirs(SCRATCH, exist_ok=True)
    results = []
    for m in muts:
        d = tempfile.mkdtemp(prefix="mut-", dir=SCRATCH)
        try:
            shutil.copytree("/repo/pymablock", os.path.join(d, "pymablock"), ignore=shutil.ignore_patterns("__pycache__", "tests"))
            path = os.path.join(d, m["file"])
            s = open(path).read()
            if m["old"] not in s:
                results.append((m["id"], "-", "PATCH-DOES-NOT-APPLY", 0))
                print(m["id"], "PATCH DOES NOT APPLY")
                continue
            open(path, "w").write(s.replace(m["old"], m["new"], 1))
            for prop in m["props"]:
                if ids and prop not in ids and m["id"] not in ids:
                    continue
                if not os.path.exists(os.path.join(HERE, "props", prop.lower() + ".py")):
                    continue
                rc, out, dt = run_check(prop, d)
                cls = [l for l in out.splitlines() if l.startswith("violation class=")]
                verdict = "killed" if rc == 1 else ("survived" if rc == 0 else f"rc={rc}")
                if m.get("equivalent"):
                    verdict = "silent(ok)" if rc == 0 else "FALSE-ALARM"
                results.append((m["id"], prop, verdict, round(dt, 1)))
                print(f"{m['id']:36s} {prop} {verdict:12s} {dt:5.1f}s {cls[0][:150] if cls else ''}", flush=True)
        finally:
            shutil.rmtree(d, ignore_errors=True)
    shutil.rmtree(os.path.join(SCRATCH, "replays"), ignore_errors=True)
    return results


def determinism(props):
    props = props or ["C09", "C10", "C11", "C12", "C18", "C19"]
    ok = True
    for prop in props:
        if not os.path.exists(os.path.join(HERE, "props", prop.lower() + ".py")):
            continue
        outs = []
        for label, env in [("base", {}), ("again", {}), ("hashseed", {"VERIF_HASHSEED": "12345"})]:
            e = dict(os.environ)
            e.update(env)
            p = subprocess.run([os.path.join(HERE, "check"), prop, "--digests", "0:150"], capture_output=True, text=True, env=e, timeout=1800)
            outs.append(p.stdout)
        same = outs[0] == outs[1] == outs[2] and "ERR" not in outs[0] and len(outs[0].splitlines()) == 150
        ok &= same
        print(prop, "digests identical (twice, other PYTHONHASHSEED):", same)
        if not same:
            a, b, c = (o.splitlines() for o in outs)
            for x, y, z in zip(a, b, c):
                if not (x == y == z):
                    print("  ", x, "|", y, "|", z)
    return ok


if __name__ == "__main__":
    cmd = sys.argv[1]
    if cmd == "mutants":
        mutants(sys.argv[2:])
    elif cmd == "determinism":
        sys.exit(0 if determinism(sys.argv[2:]) else 1)
