#!/usr/bin/env python3
"""Regenerates MANIFEST.json from the tables below (kept as code so it stays consistent)."""
import json, os

HERE = os.path.dirname(os.path.abspath(__file__))

NA = {
 "C01": "algebraic identity U†HU = H_tilde on the returned values; a pure function of the input with no schedule, clock, fault or interleaving in it - not a simulation target",
 "C02": "unitarity / adjoint pairing / Hermiticity of the returned values; pure function of the input",
 "C03": "uniqueness (gauge) against an independent solver; a differential test over inputs, no schedule or fault dimension",
 "C04": "spectrum of truncated H_tilde vs exact diagonalisation; pure function of the input",
 "C05": "non-Hermitian similarity identities; pure function of the input",
 "C06": "implicit vs explicit mode equality is a differential test over inputs; the only random element (ARPACK start vector before KPM) moves the rescaling interval inside the solver tolerance and is not what decides the property",
 "C07": "operator-valued result vs Fock-space matrices; pure function of the input expressions",
 "C08": "NumberOrderedForm arithmetic vs matrix representation; pure algebra on immutable objects",
 "C13": "metamorphic relations between results for different inputs (scaled/merged/permuted parameters); no schedule or fault",
 "C14": "equivalence of input formats / eigenbases; pure function of the input",
 "C15": "covariance under relabelling/rotation/shift/conjugation; pure function of the input",
 "C16": "solver residual per input; no state survives a call, no callback, nothing to interleave or interrupt",
 "C17": "projector vs dense matrix; pure linear algebra (cached .T/.H objects memoise pure values no fault or interleaving can reach)",
 "C20": "which inputs are rejected and finiteness for accepted ones are functions of the input; its one history facet (a request that raised must not later return a value) is checked inside C10's outcome clause",
}

BASE = "cd /repo && /venv/bin/python -m pytest -ra -q -p no:cacheprovider --timeout=900 --continue-on-collection-errors"

CHECKS = json.load(open(os.path.join(HERE, "checks.json"))) if os.path.exists(os.path.join(HERE, "checks.json")) else []

manifest = {
 "version": 1,
 "setup_cmd": "cd /verif && ./check --setup",
 "hooks": {
  "guard": "PYMABLOCK_VERIF",
  "enable": "none - every seam is a user callback or a module attribute installed by the harness at run time; no source hook exists in /repo",
  "baseline_off_cmd": BASE,
  "source_commits": [],
  "add_only": True,
 },
 "engines": [
  {"name": "sim-graph", "path": "props/graph.py", "serves_properties": ["C10", "C11", "C12"],
   "kind_free_text": "seeded request schedules and callback fault plans against block_diagonalize/series_computation graphs; fresh-computation oracle, PENDING scan, Hamiltonian call-log cone"},
  {"name": "sim-dsl", "path": "props/c09.py", "serves_properties": ["C09"],
   "kind_free_text": "compiled mini-language series vs independent reference interpreter under seeded request schedules over all series"},
  {"name": "sim-product", "path": "props/c18.py", "serves_properties": ["C18"],
   "kind_free_text": "product series as stateful memo over caller factor series; reference Cauchy sum + factor call-log discipline"},
  {"name": "sim-index", "path": "props/c19.py", "serves_properties": ["C19"],
   "kind_free_text": "model-based stateful run of index operations against a dense numpy reference with eval call log"},
 ],
 "checks": CHECKS,
 "not_applicable": [{"property_id": k, "reason": v} for k, v in sorted(NA.items())],
 "notes": "Technique family: deterministic simulation with fault injection. See DESIGN.md.",
}
claimed = {c["property_id"] for c in CHECKS}
manifest["engines"] = [e for e in manifest["engines"] if claimed & set(e["serves_properties"])]
json.dump(manifest, open(os.path.join(HERE, "MANIFEST.json"), "w"), indent=1, ensure_ascii=False)
print("checks:", sorted(claimed))
