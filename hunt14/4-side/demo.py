"""Side findings (not C12): symbolic-key dictionaries.
(a) the documented key `1` for the unperturbed term fails;
(b) `symbols=[y, x]` relabels the output but the indices stay sorted by name."""
import sys
import numpy as np
import sympy
from pymablock import block_diagonalize

x, y = sympy.symbols("x y", real=True)
h0, hx, hyy = np.diag([0.0, 1.0]), np.array([[0, 1.0], [1, 0]]), np.diag([1.0, -1.0])
bad = 0
try:
    block_diagonalize({1: h0, x: hx, y**2: hyy}, subspace_indices=[0, 1])
    print("(a) key 1 accepted")
except AttributeError as e:
    print("(a) documented form {1: h_0, x: h_1, ...} raises:", e); bad = 1
H_tilde, _, _ = block_diagonalize(
    {sympy.S.One: h0, x: hx, y**2: hyy}, subspace_indices=[0, 1], symbols=[y, x]
)
print("(b) dimension_names:", H_tilde.dimension_names)
print("    H_tilde[0,0,2,0] =", H_tilde[0, 0, 2, 0], " (labelled y**2; the y**2 term is +1, -1 is the x**2 term)")
if H_tilde.dimension_names[0] == y and np.allclose(H_tilde[0, 0, 2, 0], -1):
    bad = 1
sys.exit(bad)
