"""C09: compiled value == direct interpretation of the definition.

    with "S":
        start = 0
        "C" + "A" * "B"          # element-wise product of two series

Direct interpretation: an absent block is a zero block, so where B has no
block, A * B is a zero block and S = C.  (Where A is absent and B present the
library indeed gives S = C.)
"""
import sys
import numpy as np
from pymablock.series import BlockSeries, zero
from pymablock.algorithm_parsing import series_computation


def algorithm():
    with "S":
        start = 0
        "C" + "A" * "B"

    with "P":
        start = 0
        "A" * "B"

    return "S", "P"


blk = lambda s: np.random.default_rng(s).normal(size=(2, 2))  # noqa: E731
full = {(i, j, 1): blk(10 * i + j) for i in range(2) for j in range(2)}
A = BlockSeries(data=dict(full), shape=(2, 2), name="A")
C = BlockSeries(data={k: v + 1 for k, v in full.items()}, shape=(2, 2), name="C")
# B has only its diagonal blocks; A and C have all four
B = BlockSeries(data={k: v for k, v in full.items() if k[0] == k[1]}, shape=(2, 2), name="B")

out, _ = series_computation({"A": A, "B": B, "C": C}, algorithm, scope={})
mirror, _ = series_computation({"A": B, "B": A, "C": C}, algorithm, scope={})  # absent factor on the left

bad = False
index = (0, 1, 1)
print("mirror case (left factor absent):  P =", mirror["P"][index], " S == C:",
      np.array_equal(mirror["S"][index], C[index]))
p = out["P"][index]
print("right factor absent: property demands P = zero (a zero block); library gives\n ", repr(p))
if p is not zero and not (isinstance(p, np.ndarray) and p.dtype != object and not p.any()):
    bad = True
try:
    s = out["S"][index]
    print("S =", s)
    bad |= not np.array_equal(s, C[index])
except Exception as error:  # noqa: BLE001
    print("property demands S[0, 1, 1] = C[0, 1, 1]; library raises", type(error).__name__, error)
    bad = True
sys.exit(1 if bad else 0)
