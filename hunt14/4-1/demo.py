"""C12: the value returned at order n must not change when a Hamiltonian term of
another (higher) order is altered.  For a sympy Matrix Hamiltonian without
`symbols`, the parameter <-> index assignment is taken from the iteration order
of a Python set (`tuple(list(operator.free_symbols))`), so altering a 5th-order
term can swap the meaning of the order indices of every output."""
import itertools
import sys

import sympy
from sympy import Matrix

from pymablock import block_diagonalize


def second_order(H):
    H_tilde, _, _ = block_diagonalize(H, subspace_indices=[0, 1])
    return H_tilde[0, 0, 2, 0], H_tilde.dimension_names


pool = [sympy.Symbol(f"p{i}", real=True) for i in range(60)]
# two symbols that land in the same slot of a small set: their iteration order
# is then the insertion order, i.e. depends on how the expression is traversed.
pairs = [(a, b) for a, b in itertools.combinations(pool, 2) if hash(a) % 8 == hash(b) % 8]

for a, b in pairs:
    base = Matrix([[0, a], [a, 1]]) + b**2 * Matrix([[1, 0], [0, -1]])
    reference, names = second_order(base)
    for c, (i, j), s in itertools.product(range(1, 6), [(0, 0), (1, 1), (0, 1)], (a, b)):
        extra = sympy.zeros(2, 2)
        extra[i, j] = extra[j, i] = c * s**5  # a fifth-order term only
        altered, _ = second_order(base + extra)
        if sympy.simplify(altered - reference) != sympy.zeros(1, 1):
            print(f"parameters {a}, {b}; H = {base.tolist()}")
            print(f"H_tilde[0, 0, 2, 0]                      = {reference.tolist()}")
            print(f"after adding {c}*{s}**5 to H[{i},{j}] (5th order) = {altered.tolist()}")
            print(f"dimension_names of the output: {names} (do not tell which is which)")
            print("demanded: the second-order value is unaffected by a fifth-order term")
            print("VIOLATION")
            sys.exit(1)
print("not reproduced in this process (no colliding pair flipped)")
sys.exit(0)
