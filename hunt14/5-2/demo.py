"""C18: hermitian=True must not change any value of a Hermitian product; with the `one`
sentinel in an off-diagonal block the lower-triangle element raises instead."""
import sys
import numpy as np
from pymablock.series import BlockSeries, cauchy_dot_product, zero, one

rng = np.random.default_rng(0)
a = rng.normal(size=(2, 2)) + 1j * rng.normal(size=(2, 2))
d0, d1 = rng.normal(size=(2, 2)), rng.normal(size=(2, 2))
# Hermitian H: H_0 swaps two equal-sized blocks (identity between them), H_1 generic Hermitian
H = {
    (0, 1, 0): one, (1, 0, 0): one,
    (0, 0, 1): d0 + d0.T, (1, 1, 1): d1 + d1.T, (0, 1, 1): a, (1, 0, 1): a.conj().T,
}
mk = lambda: BlockSeries(data=dict(H), shape=(2, 2), n_infinite=1, name="H")

bad = 0
for nfac in (2, 3):
    ref = cauchy_dot_product(*[mk() for _ in range(nfac)], hermitian=False)
    her = cauchy_dot_product(*[mk() for _ in range(nfac)], hermitian=True)
    for idx in [(0, 0, 0), (0, 1, 0), (1, 0, 0), (1, 1, 0), (0, 1, 1), (1, 0, 1), (0, 0, 1)]:
        want = ref[idx]
        try:
            got = her[idx]
            same = (got is want) if (want is zero or want is one) else (got is not zero and got is not one and np.allclose(got, want))
            msg = "same" if same else f"DIFFERENT: {got!r}"
        except Exception as e:  # noqa: BLE001
            same, msg = False, f"raises {type(e).__name__}: {str(e)[:60]}"
        if not same:
            bad += 1
        print(f"H^{nfac}{idx}: hermitian=False -> {'array' if isinstance(want, np.ndarray) else want!r}; hermitian=True -> {msg}")
sys.exit(1 if bad else 0)
