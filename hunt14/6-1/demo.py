"""C19: absent (zero) elements must be masked - lost after copy.deepcopy."""
import copy, sys
import numpy as np
import numpy.ma as ma
from pymablock.series import BlockSeries, zero, one

calls = []
def ev(i, j, n):
    calls.append((int(i), int(j), int(n)))
    return zero if i != j else np.eye(2) * (n + 1)

s = BlockSeries(eval=ev, data={(0, 1, 0): zero}, shape=(2, 2), n_infinite=1)
ref = ma.getmaskarray(s[:, :, :2]).tolist()
t = copy.deepcopy(s)            # snapshot of a series (cache is copied)
got_arr = t[:, :, :2]
got = ma.getmaskarray(got_arr).tolist()
print("sentinels survive copy/deepcopy:", copy.copy(zero) is zero,
      copy.deepcopy(zero) is zero, copy.deepcopy(one) is one)
print("mask of original      :", ref)
print("mask of deep copy     :", got, "(property demands the same mask)")
print("deep copy [0,1,0]     :", repr(t[0, 1, 0]), "is zero ->", t[0, 1, 0] is zero)
# same through data=: a deep-copied dictionary of blocks
d = copy.deepcopy({(0, 1, 0): zero, (0, 0, 0): np.eye(2)})
u = BlockSeries(data=d, shape=(2, 2), n_infinite=1)
print("data=deepcopy(dict)   : [0,1,0] masked ->", bool(ma.getmaskarray(u[0:1, 1:2, 0:1])[0, 0, 0]))
sys.exit(1 if got != ref else 0)
