"""C09: compiled value == direct interpretation of the documented language.

Documented: "If there are multiple expressions, they are summed together" and
"`if <condition>:` differentiates evaluation based on the requested index ...
`lower`: indices in the lower triangle".

    with "S":
        start = 0
        if lower:
            "A"
        "B"

Direct interpretation: S = B everywhere, plus A in the lower triangle.
"""
import sys
import numpy as np
from pymablock.series import BlockSeries
from pymablock.algorithm_parsing import series_computation


def lower_first():
    with "S":
        start = 0
        if lower:
            "A"
        "B"

    return "S"


def lower_last():
    with "S":
        start = 0
        "B"
        if lower:
            "A"

    return "S"


blk = lambda s: np.random.default_rng(s).normal(size=(2, 2))  # noqa: E731
A = BlockSeries(data={(i, j, 1): blk(10 * i + j) for i in range(2) for j in range(2)}, shape=(2, 2), name="A")
B = BlockSeries(data={(i, j, 1): blk(50 + 10 * i + j) for i in range(2) for j in range(2)}, shape=(2, 2), name="B")

first, _ = series_computation({"A": A, "B": B}, lower_first, scope={})
last, _ = series_computation({"A": A, "B": B}, lower_last, scope={})
index = (1, 0, 1)
want = A[index] + B[index]
print("property demands S[1, 0, 1] = A + B =\n", want)
print("clause order  B; if lower: A   ->", np.allclose(last["S"][index], want))
got = first["S"][index]
print("clause order  if lower: A; B   ->", np.allclose(got, want),
      "(equals A alone:", np.allclose(got, A[index]), ")")
sys.exit(0 if np.allclose(got, want) else 1)
