"""C19: a finite-index view keeps a live reference to the caller's index list."""
import sys
from pymablock.series import BlockSeries

base = BlockSeries(eval=lambda i, j, n: f"b[{i},{j},{n}]", shape=(3, 2), n_infinite=1)
rows = [0, 1]
view = base[rows, 0]                 # view of rows 0 and 1, column 0; view.shape == (2,)
first = view[0, 1]                   # -> b[0,0,1]
rows[0] = 2; rows.append(1)          # caller reuses its own list afterwards
second = view[0, 2]                  # element 0 of the view at order 2: must be b[0,0,2]
col = list(view[:, 3])
print("view.shape            :", view.shape)
print("view[0,1] (before)    :", first)
print("view[0,2] (after)     :", second, " expected b[0,0,2]")
print("view[:,3] (after)     :", col, " expected ['b[0,0,3]', 'b[1,0,3]']")
bad = second != "b[0,0,2]" or col != ["b[0,0,3]", "b[1,0,3]"]
sys.exit(1 if bad else 0)
