"""C10: the contents of the caller's input arrays are never modified.

Blocks handed over as a list of lists of scipy sparse arrays are canonicalised IN PLACE
by the library although they hold no duplicate entries: a CSR product `A @ B` (scipy
leaves its indices unsorted) has its `data`/`indices` buffers permuted in place, a COO
array whose entries are not in row-major order gets its `row`/`col`/`data` replaced.
"""
import sys, warnings
import numpy as np
from scipy import sparse
from pymablock import block_diagonalize

warnings.simplefilter("ignore")
rng = np.random.default_rng(0)
A = sparse.random_array((3, 6), density=0.7, rng=rng, format="csr")
csr_AA = A @ A.T                      # symmetric 3x3 CSR straight out of scipy's matmul
B = np.array([[0.5, 0.25, 0.0], [0.125, 1.0, 2.0], [0.0, 1.0, 3.0]])
coo_AB = sparse.coo_array(B.T).T      # legal COO, entries in column-major order, no duplicates
coo_BA = sparse.coo_array(coo_AB.T.conj())
csr_BB = sparse.csr_array(np.diag([1.0, 2.0, 3.0]))
H0 = [[sparse.csr_array(np.diag([0.0, 0.1, 0.2])), sparse.csr_array((3, 3))],
      [sparse.csr_array((3, 3)), sparse.csr_array(np.diag([2.0, 3.0, 4.0]))]]
H1 = [[csr_AA, coo_AB], [coo_BA, csr_BB]]

print("csr block: sorted indices before:", bool(csr_AA.has_sorted_indices), " duplicates: none")
data_buf, ind_buf = csr_AA.data, csr_AA.indices          # the caller's own buffers
before = (data_buf.copy(), ind_buf.copy(), coo_AB.row.copy(), coo_AB.col.copy(), coo_AB.data.copy())
dense_before = (csr_AA.toarray(), coo_AB.toarray())

H_tilde, U, U_dag = block_diagonalize([H0, H1])
H_tilde[0, 0, 1], H_tilde[0, 0, 2]

csr_changed = not (np.array_equal(data_buf, before[0]) and np.array_equal(ind_buf, before[1]))
coo_changed = not (np.array_equal(coo_AB.row, before[2]) and np.array_equal(coo_AB.col, before[3])
                   and np.array_equal(coo_AB.data, before[4]))
print("demanded: caller's arrays untouched")
print("csr indices before:", before[1], " after:", ind_buf)
print("csr data    before:", before[0].round(3), "\n            after: ", data_buf.round(3))
print("coo row/col before:", before[2], before[3], " after:", coo_AB.row, coo_AB.col)
print("(matrix values unchanged:", np.array_equal(dense_before[0], csr_AA.toarray()),
      np.array_equal(dense_before[1], coo_AB.toarray()), ")")
if csr_changed or coo_changed:
    print(f"VIOLATION: caller's buffers modified in place (csr: {csr_changed}, coo: {coo_changed})")
    sys.exit(1)
print("no violation")
