"""C11: an exception raised while a Hamiltonian block is evaluated must reach the caller.

A Hamiltonian whose orders are given as nested block containers goes through
`_unpack_blocks`; there every `Exception` raised while block (i, j) of an order is
obtained (lazy row container) or while the block's own `__eq__` is called
(`_convert_if_zero` -> `value == 0`) is replaced by
ValueError("... operator must have an NxN block structure").
KeyboardInterrupt raised at the very same point passes through unchanged.
"""
import sys
import numpy as np
from pymablock import block_diagonalize
from pymablock.series import BlockSeries, zero

h1 = np.array([[0.3, 1.0], [1.0, -0.2]])
FAIL = {"exc": None}


class StorageError(Exception):
    """What the user's loader raises (say, a file that is not there yet)."""


class LazyRow(list):
    """Row of blocks, a block is produced when it is asked for."""

    def __getitem__(self, j):
        if FAIL["exc"] is not None:
            exc, FAIL["exc"] = FAIL["exc"], None
            raise exc("block could not be loaded")
        return super().__getitem__(j)


class Elem:
    """Element type (1x1 'matrix'); comparing is one of its own operations."""

    def __init__(self, v):
        self.v = v

    def __eq__(self, other):
        if FAIL["exc"] is not None:
            exc, FAIL["exc"] = FAIL["exc"], None
            raise exc("comparison failed")
        return False

    __hash__ = None
    def __matmul__(self, o): return Elem(self.v * o.v)
    def __add__(self, o): return Elem(self.v + o.v)
    def __neg__(self): return Elem(-self.v)
    def __truediv__(self, o): return Elem(self.v / o)
    def adjoint(self): return Elem(np.conj(self.v))


def make(kind):
    def term(n):
        if kind == "lazy":
            blk = lambda x: np.array([[x]])
            if n == 0:
                return [[blk(0.0), zero], [zero, blk(2.0)]]
            if n == 1:
                return [LazyRow([blk(h1[0, 0]), blk(h1[0, 1])]), LazyRow([blk(h1[1, 0]), blk(h1[1, 1])])]
        else:
            if n == 0:
                return [[Elem(0.0), zero], [zero, Elem(2.0)]]
            if n == 1:
                return [[Elem(h1[0, 0]), Elem(h1[0, 1])], [Elem(h1[1, 0]), Elem(h1[1, 1])]]
        return zero

    H = BlockSeries(eval=term, shape=(), n_infinite=1)
    kw = {}
    if kind == "elem":
        kw["solve_sylvester"] = lambda Y, index: Y if Y is zero else Elem(Y.v / (-2.0 if index[0] == 0 else 2.0))
    return block_diagonalize(H, **kw)[0]


violations = 0
for kind in ("lazy", "elem"):
    for exc in (StorageError, KeyboardInterrupt):
        H_tilde = make(kind)
        FAIL["exc"] = exc
        try:
            H_tilde[0, 0, 2]
            got = None
        except BaseException as e:  # noqa: BLE001
            got = e
        FAIL["exc"] = None
        ok = type(got) is exc
        print(f"[{kind:4}] callback raised {exc.__name__:17} -> caller received "
              f"{type(got).__name__}: {str(got)[:70]!r}" + ("" if ok else "   <-- not the raised exception"))
        violations += not ok
        H_tilde[0, 0, 2]  # later requests are fine (state is consistent)

print()
print("demanded: the raised exception reaches the caller; observed: Exception subclasses are replaced by a")
print("ValueError about the block structure (original only in __cause__), KeyboardInterrupt is not.")
sys.exit(1 if violations else 0)
