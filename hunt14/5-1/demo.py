"""C18 request discipline: at order 0 a factor is requested although the
complementary (zeroth) order of the other factor is absent (`zero`)."""
import sys
import numpy as np
from pymablock.series import BlockSeries, cauchy_dot_product, zero

X = {0: np.array([[1.0, 2.0], [3.0, 4.0]]), 1: np.array([[0.0, 1.0], [1.0, 0.0]])}
F = {1: np.array([[0.5, 0.0], [0.0, 0.25]])}  # no zeroth order: F_0 is `zero`


def table(t, log, name):
    def ev(i, j, n):
        log.append((name, int(n)))
        return t.get(int(n), zero)
    return BlockSeries(eval=ev, shape=(1, 1), n_infinite=1, name=name)


def build(order, n_other=0):
    """B_n = X_n + P_n with P the product of B, F (and identities) in `order`."""
    log = []
    box = {}
    def b_eval(i, j, n):
        log.append(("B", int(n)))
        p = box["P"][i, j, n]
        x = X.get(int(n), zero)
        return x if p is zero else (p if x is zero else p + x)
    B = BlockSeries(eval=b_eval, shape=(1, 1), n_infinite=1, name="B")
    Fs = table(F, log, "F")
    I = BlockSeries(data={(0, 0, 0): np.eye(2)}, shape=(1, 1), n_infinite=1, name="I")
    box["P"] = cauchy_dot_product(*[{"B": B, "F": Fs, "I": I}[c] for c in order])
    return B, log


# dense reference: P_0 = 0 because F_0 is absent, so B_0 = X_0, B_1 = X_1 + (B_0 F_1 or F_1 B_0)
violations = 0
for order in ("FB", "BF", "IBF", "BIF", "FIB"):
    B, log = build(order)
    ref0 = X[0]
    ref1 = X[1] + (F[1] @ X[0] if order.index("F") < order.index("B") else X[0] @ F[1])
    print(f"product {'*'.join(order)}: demanded B_0 = X_0 (F_0 is absent, so no term of P_0 exists)")
    try:
        got0, got1 = B[0, 0, 0], B[0, 0, 1]
        ok = np.allclose(got0, ref0) and np.allclose(got1, ref1)
        print("   library: values", "correct" if ok else "WRONG")
        violations += not ok
    except RuntimeError as e:
        c = e
        while c.__cause__ is not None:
            c = c.__cause__
        print("   library: RuntimeError:", str(c)[:90])
        violations += 1

# the same seen through the request log, without any recursion
log = []
S = table({0: np.eye(2), 1: np.eye(2)}, log, "S")
Fs = table(F, log, "F")
assert cauchy_dot_product(S, Fs)[0, 0, 0] is zero
print("requests made for (S*F)_0 with F_0 absent:", log, "(S_0 must not be requested before F_0 is known present)")
violations += log[0] == ("S", 0)
log.clear()
assert cauchy_dot_product(Fs, S)[0, 0, 0] is zero
print("requests made for (F*S)_0 with F_0 absent:", log)
sys.exit(1 if violations else 0)
