"""C10: value of an element must equal the value from a fresh computation.

With a sympy Matrix and `symbols=None` (documented: "all symbols will be treated
as perturbative") the ORDER of the perturbation parameters is taken from the
iteration order of a Python set, so the same script gives different values for
the same element H_tilde[0, 0, 2, 0] in different interpreter runs, and
`dimension_names` ('n_0', 'n_1') does not tell which order was used.
"""
import os, subprocess, sys

CHILD = r'''
import warnings, sympy
warnings.simplefilter("ignore")
from pymablock import block_diagonalize
x, y = sympy.symbols("x y", real=True)
M = sympy.Matrix([[1, 2*x, y], [2*x, 2 + x**2, 3*x*y], [y, 3*x*y, 5 + y**2]])
H, U, Ui = block_diagonalize(M, subspace_indices=[0, 0, 1])
print(H.dimension_names, "H_tilde[0,0,2,0] =", H[0, 0, 2, 0], " U[0,1,1,0] =", U[0, 1, 1, 0])
'''

if __name__ == "__main__":
    results = {}
    for seed in range(8):
        env = dict(os.environ, PYTHONHASHSEED=str(seed))
        out = subprocess.run([sys.executable, "-c", CHILD], env=env, capture_output=True,
                             text=True, cwd=os.getcwd()).stdout.strip()
        print(f"PYTHONHASHSEED={seed}: {out}")
        results.setdefault(out, []).append(seed)
    print()
    print("demanded: one and the same value for the element in every fresh computation")
    print(f"observed: {len(results)} different answers")
    if len(results) > 1:
        print("VIOLATION: the value of H_tilde[0,0,2,0] depends on the interpreter's hash seed")
        sys.exit(1)
    print("no violation")
