"""C09: the linear-operator mode must not change any value.

A declared three-factor Cauchy product "A @ B @ C" used by a series S.  The
inputs are given once with dense blocks and once with the (1, 1) block wrapped
as a scipy LinearOperator (use_linear_operator[1, 1] = True), exactly like the
implicit mode of block_diagonalize does.  S at the ORDINARY block (1, 0) must
be the same array in both runs.
"""
import sys
import numpy as np
from scipy.sparse.linalg import aslinearoperator
from pymablock.series import BlockSeries
from pymablock.algorithm_parsing import series_computation


def algorithm():
    with "S":
        start = 0
        "A @ B @ C"

    with "A @ B @ C":
        pass

    return "S"


sizes = (2, 4)


def make(name, implicit):
    data = {}
    for n in (1, 2):
        for i in range(2):
            for j in range(2):
                block = np.random.default_rng([ord(name), n, i, j]).normal(size=(sizes[i], sizes[j]))
                if implicit and i == j == 1:
                    block = aslinearoperator(block)
                data[(i, j, n)] = block
    return BlockSeries(data=data, shape=(2, 2), n_infinite=1, name=name)


use = np.zeros((2, 2), dtype=bool)
use[1, 1] = True

dense, _ = series_computation({k: make(k, False) for k in "ABC"}, algorithm, scope={})
implicit, _ = series_computation(
    {k: make(k, True) for k in "ABC"}, algorithm, scope={"use_linear_operator": use}
)

index = (1, 0, 3)
want = dense["S"][index]
print("property demands S[1, 0, 3] =\n", want)
try:
    got = implicit["S"][index]
except Exception as error:  # noqa: BLE001
    print("linear-operator mode raises:", type(error).__name__, str(error)[:120])
    sys.exit(1)
print("linear-operator mode gives\n", got)
sys.exit(0 if np.allclose(got, want) else 1)
