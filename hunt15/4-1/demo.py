"""A Hamiltonian given as a scalar BlockSeries with named parameters (x, y):
the outputs do not carry the parameter names of the input (symbols=None), and
`symbols=[y, x]` relabels the outputs without permuting anything, so that the
index labelled y of every output is parameter x of the input."""
import sys
import numpy as np, sympy
import pymablock
from pymablock import block_diagonalize
from pymablock.series import BlockSeries, zero

x, y = sympy.symbols("x y", real=True)
rng = np.random.default_rng(0)
def herm():
    a = rng.normal(size=(4, 4)); return a + a.T
h0 = np.diag([0.0, 1.0, 5.0, 6.0]); hx = herm(); hy = herm()
terms = {(0, 0): h0, (1, 0): hx, (0, 1): hy}       # index 0 <-> x, index 1 <-> y

def make(log):
    def ev(*order):
        order = tuple(int(k) for k in order); log.append(order)
        return terms.get(order, zero)
    return BlockSeries(eval=ev, shape=(), n_infinite=2, dimension_names=(x, y))

bad = False
print("library:", pymablock.__file__)
# (a) names of the input are dropped
log = []; Ht, U, Ud = block_diagonalize(make(log), subspace_indices=[0, 0, 1, 1])
print("input names (x, y), symbols=None -> output names", Ht.dimension_names,
      "(demanded: (x, y), 'taken from the input Hamiltonian')")
bad |= tuple(Ht.dimension_names) != (x, y)

# (b) symbols in another order: labels swapped, indices not
log = []; Ht, U, Ud = block_diagonalize(make(log), subspace_indices=[0, 0, 1, 1], symbols=[y, x])
names = list(Ht.dimension_names)
print("input names (x, y), symbols=[y, x] -> output names", names)
want = {y: 2, x: 0}                                  # second order in y, none in x
index = tuple(want[n] for n in names)
n0 = len(log); value = Ht[(0, 0) + index]
used = sorted(set(log[n0:]) - {(0, 0)})
print("request y^2 x^0 by the output's labels -> index", index,
      "-> input terms evaluated (orders in the INPUT's (x, y)):", used)
ref = block_diagonalize({(0, 0): h0, (1, 0): hx, (0, 1): hy}, subspace_indices=[0, 0, 1, 1])[0]
is_x2 = np.allclose(value, ref[(0, 0, 2, 0)]); is_y2 = np.allclose(value, ref[(0, 0, 0, 2)])
print("value equals the x^2 correction:", is_x2, "| equals the y^2 correction:", is_y2)
print("demanded: only input terms of order <= 2 in y and 0 in x, i.e. (0,1),(0,2); value = y^2 correction")
bad |= any(o[0] > 0 for o in used) or not is_y2

# (c) same names on a series that already has blocks: symbols ignored
sl = [slice(0, 2), slice(2, 4)]
B = BlockSeries(eval=lambda i, j, *o: (terms[tuple(o)][sl[i], sl[j]] if tuple(o) in terms and (any(o) or i == j) else zero),
                shape=(2, 2), n_infinite=2, dimension_names=(x, y))
print("block-shaped input with names (x, y), symbols=[y, x] -> output names",
      block_diagonalize(B, symbols=[y, x])[0].dimension_names, "(same indices as in (b))")
print("VIOLATION" if bad else "ok")
sys.exit(1 if bad else 0)
