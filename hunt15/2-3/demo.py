"""Nested block lists of the Hamiltonian are read lazily; rebinding an entry later leaks in."""
import sys
import numpy as np
from pymablock import block_diagonalize
from pymablock.series import zero

rng = np.random.default_rng(5)
hAA, hBB = np.diag([2.0, 3.0]), np.diag([0.0, 0.5, 1.0])
pAA = rng.normal(size=(2, 2)); pAA += pAA.T
pBB = rng.normal(size=(3, 3)); pBB += pBB.T
pAB, qAB = rng.normal(size=(2, 3)), rng.normal(size=(2, 3))

def hamiltonian(ab):
    return [[[hAA, zero], [zero, hBB]], [[pAA, ab], [ab.T, pBB]]]

inp = hamiltonian(pAB)
H_tilde, U, U_adj = block_diagonalize(inp)
U[0, 1, 1]                                   # part of the first order is evaluated
inp[1][0][1], inp[1][1][0] = qAB, qAB.T      # caller prepares its next problem in the same lists
                                             # (no array is modified, entries are only rebound)
got = H_tilde[0, 0, 2]
old = block_diagonalize(hamiltonian(pAB))[0][0, 0, 2]
new = block_diagonalize(hamiltonian(qAB))[0][0, 0, 2]
d_old, d_new = np.abs(got - old).max(), np.abs(got - new).max()
print("demanded : H_tilde[0,0,2] of the problem as defined:\n", old)
print("library  :\n", got)
print(f"|got - fresh(as defined)| = {d_old:.3g}; |got - fresh(lists as they are now)| = {d_new:.3g}")
sys.exit(1 if d_old > 1e-9 else 0)
