"""deepcopy of a series while one element is being evaluated: the copy serves `pending` as a value."""
import copy, sys
from pymablock.series import BlockSeries, PENDING

snap = {}
def ev(i, j, n):
    if n == 2:
        snap["copy"] = copy.deepcopy(S)  # snapshot taken from inside a callback
    return f"v{n}"
S = BlockSeries(eval=ev, shape=(2, 2), n_infinite=1)
print("original S[0,0,2] =", S[0, 0, 2])
c = snap["copy"]
print("demanded: copy[0,0,2] == 'v2' (evaluated once by the copy), or a RuntimeError")
try:
    got = c[0, 0, 2]
except RuntimeError as e:
    print("copy raised RuntimeError:", e); sys.exit(1)
print("library : copy[0,0,2] =", repr(got), type(got))
print("deepcopy(PENDING) is PENDING:", copy.deepcopy(PENDING) is PENDING)
sys.exit(1 if got != "v2" else 0)
