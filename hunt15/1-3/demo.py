"""series_computation evaluates the zeroth order of every input while compiling."""
import sys
import numpy as np
from pymablock.series import BlockSeries
from pymablock.algorithm_parsing import series_computation


def algorithm():
    with "B":
        start = 0
        "A" + "A".adj

    return "B"


requested = []


def A_eval(*index):
    requested.append(tuple(int(i) for i in index))
    if not any(index[2:]):
        raise ValueError("A has no zeroth order (it is a derivative-like series)")
    return np.eye(2) * (index[0] + 1) / int(index[2])


A = BlockSeries(eval=A_eval, shape=(2, 2), n_infinite=1, name="A")
print("B has start = 0, so no element of B needs A at order 0.")
print("demanded: B[0, 1, 2] = A[0,1,2] + A[1,0,2]^dagger =", (np.eye(2) * 1.5).tolist())
try:
    out, _ = series_computation({"A": A}, algorithm)
    got = out["B"][0, 1, 2]
    print("library :", np.asarray(got).tolist(), "| input elements requested:", requested)
    bad = any(not any(index[2:]) for index in requested) or not np.allclose(got, np.eye(2) * 1.5)
except ValueError as error:
    print("library : series_computation(...) itself raises ValueError:", error)
    print("          input elements requested while compiling:", requested)
    bad = True
sys.exit(1 if bad else 0)
