"""The right-hand side handed to a custom solve_sylvester is a view of the caller's input block
(or the memoised element of an internal series), not a private temporary."""
import sys, copy
import numpy as np
from pymablock import block_diagonalize
from pymablock.series import zero

rng = np.random.default_rng(5)
hAA, hBB = np.diag([2.0, 2.0]), np.diag([0.0, 0.0, 0.0])
pAA = rng.normal(size=(2, 2)); pAA += pAA.T
pBB = rng.normal(size=(3, 3)); pBB += pBB.T
pAB = rng.normal(size=(2, 3))

def hamiltonian():
    return [[[hAA.copy(), zero], [zero, hBB.copy()]],
            [[pAA.copy(), pAB.copy()], [pAB.T.copy(), pBB.copy()]]]

seen = []
def solve_sylvester(Y, index):
    """E_A - E_B = 2 for all pairs; divides without allocating a new array."""
    if Y is zero:
        return zero
    seen.append(Y)
    np.divide(Y, 2.0 if index[0] < index[1] else -2.0, out=Y)
    return Y

inp = hamiltonian(); inp0 = copy.deepcopy(inp)
H_tilde, U, U_adj = block_diagonalize(inp, solve_sylvester=solve_sylvester)
ref = block_diagonalize(hamiltonian())[0]
got2, got3 = H_tilde[0, 0, 2], H_tilde[1, 1, 3]
intact = np.array_equal(inp[1][1][0], inp0[1][1][0])
print("rhs of the first solve shares memory with the caller's block h_1[1][0]:",
      np.shares_memory(seen[0], inp[1][1][0]))
print("demanded : caller's input blocks unchanged; library: unchanged =", intact)
print("demanded : H_tilde[1,1,3] =\n", ref[1, 1, 3], "\nlibrary  :\n", got3)
bad = (not intact) or not np.allclose(got3, ref[1, 1, 3])
sys.exit(1 if bad else 0)
