"""copy.copy(series) shares the memo: values and the PENDING marker leak between the two series."""
import copy, sys
from pymablock.series import BlockSeries, zero

bad = False
S = BlockSeries(eval=lambda i, j, n: f"S{n}", shape=(2, 2), n_infinite=1)
S[0, 0, 1]
C = copy.copy(S)
C.eval = lambda i, j, n: f"C{n}"      # a variant of S, like cauchy_dot_product does with product.eval
print("demanded C[0,0,1] = 'C1'; library:", C[0, 0, 1]); bad |= C[0, 0, 1] != "C1"
C[0, 0, 3]
print("demanded S[0,0,3] = 'S3'; library:", S[0, 0, 3]); bad |= S[0, 0, 3] != "S3"
# pending leak: T is defined through its (independent, all-zero) copy: well founded
T = BlockSeries(shape=(2, 2), n_infinite=1)
Z = copy.copy(T)                       # Z.eval gives zero everywhere
T.eval = lambda *i: Z[i]
try:
    print("demanded T[0,0,1] is zero; library:", T[0, 0, 1])
except RuntimeError as e:
    print("demanded T[0,0,1] is zero; library: RuntimeError:", e.__cause__); bad = True
sys.exit(1 if bad else 0)
