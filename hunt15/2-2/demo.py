"""The caller's `symbols` list is kept by reference and read at every evaluation."""
import sys
import sympy
from pymablock import block_diagonalize
from pymablock.series import zero

x, y, d = sympy.symbols("x y d", real=True)
H = sympy.Matrix([[d + x, x * y + y, 0], [x * y + y, -d + x**2, y], [0, y, 3 * d]])

symbols = [x, y]
H_tilde, U, U_adj = block_diagonalize(H, symbols=symbols, subspace_indices=[0, 1, 1])
before = H_tilde[0, 0, 1, 0]            # order x^1 y^0
symbols.reverse()                       # the caller reuses its own list
got = H_tilde[0, 0, 1, 2]               # order x^1 y^2 of the computation defined above
ref = block_diagonalize(H, symbols=[x, y], subspace_indices=[0, 1, 1])[0][0, 0, 1, 2]

print("demanded :", ref)
print("library  :", got, "  dimension_names now:", H_tilde.dimension_names)
same = (got is ref) or (got is not zero and ref is not zero and sympy.simplify(got - ref).is_zero_matrix)
sys.exit(0 if same else 1)
