"""Scope entries collide with names the compiler uses inside the generated eval function."""
import sys
import numpy as np
from pymablock.series import BlockSeries, zero
from pymablock.algorithm_parsing import series_computation
from pymablock import algorithms


def shifted():
    with "B":
        "A" + result  # `result`: a data entry handed over through `scope`

    return "B"


def copy():
    with "B":
        "A"

    return "B"


A = BlockSeries(data={(0, 0, 1): np.eye(2)}, shape=(1, 1), n_infinite=1, name="A")
M = 10 * np.ones((2, 2))
violations = 0

# (a) a scope entry called `result` is silently replaced by the accumulator
out, _ = series_computation({"A": A}, shifted, scope={"result": M})
got, want = out["B"][0, 0, 1], np.eye(2) + M
print("(a) B = A + result, scope result = 10*ones")
print("    demanded:", want.tolist(), "\n    library :", np.asarray(got).tolist())
violations += not np.allclose(got, want)

# (b) a scope entry called `zero` becomes the initial value of every element
out, _ = series_computation({"A": A}, copy, scope={"zero": M})
got, want = out["B"][0, 0, 1], np.eye(2)
print("(b) B = A, scope zero = 10*ones (never mentioned in the algorithm)")
print("    demanded:", want.tolist(), "\n    library :", np.asarray(got).tolist())
violations += not np.allclose(got, want)

# (c) shipped algorithm, numeric `zero` in the scope: well-founded definition fails
rng = np.random.default_rng(0)
e = [np.array([0.0, 1.0]), np.array([5.0, 6.0])]
V = rng.normal(size=(4, 4)); V = V + V.T
H = BlockSeries(
    data={(0, 0, 0): np.diag(e[0]), (1, 1, 0): np.diag(e[1]),
          **{(i, j, 1): V[2 * i:2 * i + 2, 2 * j:2 * j + 2] for i in range(2) for j in range(2)}},
    shape=(2, 2), n_infinite=1, name="H")


def solve_sylvester(Y, index):
    return zero if Y is zero else Y / (e[index[0]].reshape(-1, 1) - e[index[1]])


base = dict(solve_sylvester=solve_sylvester, two_block_optimized=True, commuting_blocks=[True, True])
ref = series_computation({"H": H}, algorithms.main, scope=base)[0]["H_tilde"][0, 0, 2]
try:
    got = series_computation({"H": H}, algorithms.main, scope={**base, "zero": 0.0})[0]["H_tilde"][0, 0, 2]
    ok = np.allclose(got, ref)
    print("(c) main with scope zero = 0.0: equal to the plain run:", ok)
except Exception as error:  # noqa: BLE001
    ok = False
    print("(c) main with scope zero = 0.0 demanded:", np.round(ref, 4).tolist())
    print("    library :", type(error).__name__, str(error)[:70], "<-", repr(error.__cause__)[:60])
violations += not ok
sys.exit(1 if violations else 0)
