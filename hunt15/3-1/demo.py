"""C11: an in-flight marker survives in a deep copy taken while a callback fails.

A Sylvester solver that fails saves a snapshot of the outputs (copy.deepcopy) in its
error handler and re-raises.  The exception reaches the caller and the original series
recover - but the snapshot keeps a *duplicate* of the PENDING sentinel for every element
that was on the stack.  The duplicate is not recognised (`is PENDING` is False), so the
snapshot returns the marker object `pending` as if it were the value of the element.
"""
import sys
from copy import deepcopy

import numpy as np

from pymablock import block_diagonalize
from pymablock.series import BlockSeries, zero

E = [np.array([0.0, 1.0]), np.array([3.0, 4.5])]
rng = np.random.default_rng(0)
a = rng.normal(size=(4, 4))
P = {1: a + a.T}


def h_eval(i, j, n):
    if n == 0:
        return np.diag(E[i]) if i == j else zero
    return P[n][2 * i : 2 * i + 2, 2 * j : 2 * j + 2] if n in P else zero


def make(fail_at=None):
    outs, snapshots, calls = {}, [], [0]

    def solve(Y, index):
        calls[0] += 1
        try:
            if calls[0] == fail_at:
                raise ValueError("solver failed")
            return zero if Y is zero else Y / (E[index[0]].reshape(-1, 1) - E[index[1]])
        except ValueError:
            snapshots.append(deepcopy(outs))  # keep what was computed so far
            raise

    H = BlockSeries(eval=h_eval, shape=(2, 2), n_infinite=1)
    outs["H_tilde"], outs["U"], outs["Udag"] = block_diagonalize(H, solve_sylvester=solve)
    return outs, snapshots


clean, _ = make()
expected = clean["U"][0, 1, 2]

outs, snapshots = make(fail_at=2)
try:
    outs["U"][0, 1, 2]
except ValueError as error:
    print("exception reached the caller:", error)
print("original series afterwards equals clean run:", np.array_equal(outs["U"][0, 1, 2], expected))

snapshot = snapshots[0]["U"]
got = snapshot[0, 1, 2]
print("demanded : the undisturbed value (or at least an error), never a marker")
print("expected value:\n", expected)
print("snapshot returns:", repr(got), "of type", type(got).__name__)
violated = type(got).__name__ == "Pending"
print("VIOLATION" if violated else "ok")
sys.exit(1 if violated else 0)
