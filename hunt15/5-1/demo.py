"""Descending order slices on a product: elements are not delivered."""
import sys
import numpy as np
from pymablock.series import BlockSeries, cauchy_dot_product, zero

A = {(0, 0, n): (n + 1.0) * np.eye(1) for n in range(6)}
mk = lambda: BlockSeries(eval=lambda *i: A.get(tuple(int(x) for x in i), zero), shape=(1, 1), n_infinite=1)
P = cauchy_dot_product(mk(), mk())
ref = lambda n: sum(A[0, 0, a] @ A[0, 0, n - a] for a in range(n + 1))

bad = False
for sl, orders in [(slice(3, 0, -1), [3, 2, 1]), (slice(3, None, -1), [3, 2, 1, 0]), (slice(4, 1, -2), [4, 2])]:
    want = [ref(n)[0, 0] for n in orders]
    assert list(np.arange(10)[sl]) == orders  # numpy's rule for this slice
    try:
        got = [x[0, 0] for x in P[0, 0, sl]]
    except Exception as e:  # noqa: BLE001
        got = f"{type(e).__name__}: {e}"
    print(f"P[0,0,{sl}]: orders {orders}\n   demanded (Cauchy sums): {want}\n   library: {got}")
    bad |= got != want
# ascending slices of the same object are fine
print("P[0,0,1:4] ->", [x[0, 0] for x in P[0, 0, 1:4]], "expected", [ref(n)[0, 0] for n in (1, 2, 3)])
sys.exit(1 if bad else 0)
