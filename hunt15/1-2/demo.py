"""Unary plus and element-wise `@` / `**` fail on absent (zero) blocks."""
import sys
import numpy as np
from pymablock.series import BlockSeries, zero
from pymablock.algorithm_parsing import series_computation


def plus():
    with "B":
        +"A" - "C"

    return "B"


def blockwise():
    with "B":
        "A" @ "C" + "A"

    return "B"


rng = np.random.default_rng(0)
A = BlockSeries(data={(0, 0, 1): rng.normal(size=(2, 2))}, shape=(2, 2), n_infinite=1, name="A")
C = BlockSeries(data={(0, 0, 1): rng.normal(size=(2, 2)), (0, 1, 1): rng.normal(size=(2, 2))},
                shape=(2, 2), n_infinite=1, name="C")


def val(series, index):
    value = series[index]
    return np.zeros((2, 2)) if value is zero else value


want = {
    "plus": lambda i: val(A, i) - val(C, i),
    "blockwise": lambda i: val(A, i) @ val(C, i) + val(A, i),
}
violations = 0
for name, algorithm in (("plus", plus), ("blockwise", blockwise)):
    out, _ = series_computation({"A": A, "C": C}, algorithm)
    for index in [(0, 0, 1), (0, 1, 1), (1, 1, 1)]:
        expected = want[name](index)
        try:
            got = out["B"][index]
            got = np.zeros((2, 2)) if got is zero else got
            ok = np.allclose(got, expected)
            shown = "equal" if ok else np.round(got, 3).tolist()
        except Exception as error:  # noqa: BLE001
            ok, shown = False, f"{type(error).__name__}: {error}"
        violations += not ok
        print(f"{name:9} B{index}: demanded {np.round(expected, 3).tolist()}  library: {shown}")
sys.exit(1 if violations else 0)
