"""subspace_eigenvectors arrays are read lazily, the energies derived from them are snapshotted."""
import sys
import numpy as np
from pymablock import block_diagonalize

rng = np.random.default_rng(1)
n = 4
q, _ = np.linalg.qr(rng.normal(size=(n, n)))
h0 = q @ np.diag([0.0, 1.0, 3.0, 4.0]) @ q.T
p = rng.normal(size=(n, n)); p = p + p.T

va, vb = q[:, :2].copy(), q[:, 2:].copy()
H_tilde, U, U_adj = block_diagonalize([h0, p], subspace_eigenvectors=(va, vb))
H_tilde[0, 0, 2]
va[:, [0, 1]] = va[:, [1, 0]]      # caller reorders its basis in place (still a valid eigenbasis)
got = H_tilde[0, 0, 3]

old = block_diagonalize([h0, p], subspace_eigenvectors=(q[:, :2].copy(), vb.copy()))[0][0, 0, 3]
new = block_diagonalize([h0, p], subspace_eigenvectors=(va.copy(), vb.copy()))[0][0, 0, 3]
d_old, d_new = np.abs(got - old).max(), np.abs(got - new).max()
print("demanded : H_tilde[0,0,3] as for the eigenvectors given at definition:\n", old)
print("library  :\n", got)
print(f"|got - fresh(as defined)| = {d_old:.3g}; |got - fresh(arrays as they are now)| = {d_new:.3g}")
sys.exit(1 if d_old > 1e-9 else 0)
