"""fully_diagonalize mask: the 'keep' half is copied at definition, the 'eliminate' half is read lazily."""
import sys
import numpy as np
from pymablock import block_diagonalize

rng = np.random.default_rng(0)
n = 4
h0 = np.diag([0.0, 1.0, 2.0, 3.0])
p = rng.normal(size=(n, n)); p = p + p.T

def problem(mask):
    return block_diagonalize([h0.copy(), p.copy()], fully_diagonalize={0: mask})

m_old = np.zeros((n, n), bool); m_old[0, 1] = m_old[1, 0] = True
m_new = np.zeros((n, n), bool); m_new[2, 3] = m_new[3, 2] = m_new[0, 2] = m_new[2, 0] = True

mask = m_old.copy()
H_tilde, U, U_adj = problem(mask)
first = H_tilde[0, 0, 1]
mask[:] = m_new              # the caller reuses its own array for the next problem
got = H_tilde[0, 0, 2]       # ... and continues the first computation

ref_old = problem(m_old.copy())[0][0, 0, 2]
ref_new = problem(m_new.copy())[0][0, 0, 2]
d_old, d_new = np.abs(got - ref_old).max(), np.abs(got - ref_new).max()
print("demanded : H_tilde[0,0,2] equals a fresh computation (mask as given at definition)")
print(f"library  : |got - fresh(mask at definition)| = {d_old:.3g}, |got - fresh(mask now)| = {d_new:.3g}")
print("           largest entry of the result:", np.abs(got).max(), "(fresh:", np.abs(ref_old).max(), ")")
sys.exit(1 if d_old > 1e-9 else 0)
