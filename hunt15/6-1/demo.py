"""Views made with numpy-array (or tuple-wrapped list) index components follow later mutation."""
import sys
import numpy as np
from pymablock.series import BlockSeries, zero

def mk():
    return BlockSeries(eval=lambda i, j, n: f"e{i}{j}{n}", shape=(2, 3), n_infinite=1)

bad = False
# (a) numpy array component, mutated after the view exists
a = np.array([0, 1]); v = mk()[a, 0]; a[0] = 1
got = v[:, 2].tolist(); want = ["e002", "e102"]
print("(a) ndarray index   want", want, "got", got); bad |= got != want
# (b) list wrapped in a tuple component (numpy treats it as a nested sequence)
inner = [0, 1]; v = mk()[(inner,), [0, 1]]; inner[0] = 1
got = v[:, :, 2].tolist(); want = [["e002", "e012"]]
print("(b) list in tuple   want", want, "got", got); bad |= got != want
# (c) same list as plain list component is protected (the repaired case)
inner = [0, 1]; v = mk()[[inner], [0, 1]]; inner[0] = 1
print("(c) nested list     ", v[:, :, 2].tolist(), "(correct, for contrast)")
# (d) ndarray order index changed while eval runs: placeholders of the trial array come back
s = mk(); o = np.array([1, 2]); inner_eval = s.eval
def ev(*i):
    o[:] = 0  # e.g. a callback reusing a buffer
    return inner_eval(*i)
s.eval = ev
got = s[0, 0, o].tolist(); want = ["e001", "e002"]
print("(d) ndarray orders  want", want, "got", got); bad |= got != want
sys.exit(1 if bad else 0)
