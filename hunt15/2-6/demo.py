"""hermitian=False stores the very object a custom solve_sylvester returned (hermitian=True
stores its negation, a new array). A solver that reuses its output buffer then changes values
already handed to the caller."""
import sys
import numpy as np
from pymablock import block_diagonalize
from pymablock.series import zero

rng = np.random.default_rng(5)
hAA, hBB = np.diag([1.0, 1.0]), np.diag([0.0, 0.0, 0.0])
pAA = rng.normal(size=(2, 2)); pAA += pAA.T
pBB = rng.normal(size=(3, 3)); pBB += pBB.T
pAB = rng.normal(size=(2, 3))
H = [[[hAA, zero], [zero, hBB]], [[pAA, pAB], [pAB.T.copy(), pBB]]]

def make_solver():
    out = {}
    def solve_sylvester(Y, index):          # E_i - E_j = +-1; one preallocated output per block
        if Y is zero:
            return zero
        buf = out.setdefault(index[:2], np.empty(Y.shape))
        return np.multiply(Y, 1.0 if index[0] < index[1] else -1.0, out=buf)
    return solve_sylvester

status = 0
for hermitian in (True, False):
    ref = block_diagonalize(H, hermitian=hermitian)[1]
    U = block_diagonalize(H, hermitian=hermitian, solve_sylvester=make_solver())[1]
    u1 = U[0, 1, 1]; u1_copy = u1.copy()
    u2 = U[0, 1, 2]                          # a later evaluation
    print(f"hermitian={hermitian}: U[0,1,1] handed out earlier unchanged: {np.array_equal(u1, u1_copy)};"
          f" U[0,1,2] correct: {np.allclose(u2, ref[0, 1, 2])}; U[0,1,1] is U[0,1,2]: {u1 is u2}")
    if not np.array_equal(u1, u1_copy):
        status = 1
print("demanded : values already handed to the caller are not modified by later evaluations")
sys.exit(status)
