"""A view of a product made with numpy index arrays follows later changes of those arrays."""
import sys
import numpy as np
from pymablock.series import BlockSeries, cauchy_dot_product, zero

A = {(a, b, n): (10 * a + b + 1.0) * (n + 1) * np.eye(1) for a in range(2) for b in range(2) for n in range(3)}
mk = lambda: BlockSeries(eval=lambda *i: A.get(tuple(int(x) for x in i), zero), shape=(2, 2), n_infinite=1)
P = cauchy_dot_product(mk(), mk())

rows, cols = np.array([0]), np.array([1])
V = P[rows, cols]          # view on block (0, 1)
rows[0] = 1                # the caller reuses its index buffer afterwards
got = V[0, 1]
want = P[0, 1, 1]
print("view created on block (0,1); demanded V[0,1] == P[0,1,1] =", want.ravel())
print("library gives", got.ravel(), "(which is P[1,1,1] =", P[1, 1, 1].ravel(), ")")
L = [0]
W = P[L, [1]]; L[0] = 1
print("same with a list index (repaired earlier):", W[0, 1].ravel())
sys.exit(0 if np.allclose(got, want) else 1)
