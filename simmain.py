"""Dispatcher for ./check (see DESIGN.md section 7)."""
import argparse
import importlib
import os
import sys

HERE = os.path.dirname(os.path.abspath(__file__))
sys.path.insert(0, HERE)

from simkit import boot  # noqa: E402

PROPS = {"C09": "props.c09", "C10": "props.c10", "C11": "props.c11", "C12": "props.c12",
         "C18": "props.c18", "C19": "props.c19"}


def load(pid):
    return importlib.import_module(PROPS[pid]).PROP


def main():
    ap = argparse.ArgumentParser()
    ap.add_argument("prop", nargs="?")
    ap.add_argument("--tier", default=os.environ.get("VERIF_TIER", "quick"), choices=["quick", "thorough"])
    ap.add_argument("--replay")
    ap.add_argument("--setup", action="store_true")
    ap.add_argument("--digests", help="print run digests for run indices a:b (determinism self-test)")
    ap.add_argument("--one", type=int, help="execute one run index verbosely")
    args = ap.parse_args()

    if os.environ.get("PYTHONHASHSEED") is None:
        os.environ["PYTHONHASHSEED"] = "0"
        os.execv(sys.executable, [sys.executable, "-W", "ignore", *sys.argv])

    boot.boot()
    if args.setup:
        import numpy, scipy, sympy  # noqa

        import pymablock

        print("setup ok: pymablock from", os.path.dirname(pymablock.__file__), "numpy", numpy.__version__,
              "scipy", scipy.__version__, "sympy", sympy.__version__)
        for pid in PROPS:
            try:
                load(pid)
            except ModuleNotFoundError as e:
                print("  (not built yet)", pid, e)
        return 0

    seed = int(os.environ.get("VERIF_SEED", "0"))
    prop = load(args.prop)
    from simkit import batch

    if args.replay:
        return batch.replay(prop, args.replay)
    if args.digests:
        a, b = map(int, args.digests.split(":"))
        for idx in range(a, b):
            case = batch.gen_case(prop, seed, idx, args.tier)
            out, err = batch.run_case(prop, case)
            print(idx, out["digest"][:16] if out else "ERR " + str(err).splitlines()[-1])
        return 0
    if args.one is not None:
        import json

        case = batch.gen_case(prop, seed, args.one, args.tier)
        print(json.dumps(case, default=str)[:4000])
        out, err = batch.run_case(prop, case)
        print(err if err else {k: v for k, v in out.items() if k != "states"})
        return 0
    return batch.run_batch(prop, args.tier, seed)


if __name__ == "__main__":
    sys.exit(main())
