#!/bin/bash
# Literal procedure of the brief: apply each kept change to /repo, run the check(s) of its property, undo straight afterwards.
#   seeded_matrix.sh [id ...]      (default: every directory under /verif/seeded)
# Do not run while a `vp run` soak is using /repo.
set -u
cd /verif
ids=("$@"); [ ${#ids[@]} -eq 0 ] && ids=($(ls seeded))
OUT=/var/tmp/verif-seeded-matrix; rm -rf "$OUT"; mkdir -p "$OUT"
if [ -n "$(git -C /repo status --porcelain)" ]; then echo "/repo is not clean"; exit 9; fi
for id in "${ids[@]}"; do
  prop=$(python3 -c "import json;print(json.load(open('seeded/$id/meta.json'))['breaks_property'])")
  git -C /repo apply "seeded/$id/patch.diff" || { echo "$id PATCH-FAILED"; continue; }
  VERIF_EVIDENCE_DIR="$OUT/evidence" VERIF_REPLAY_DIR="$OUT/replays" VERIF_SHRINK_S=20 ./check "$prop" --tier quick > "$OUT/$id.log" 2>&1
  rc=$?
  git -C /repo checkout -- .
  echo "$id $prop exit=$rc $(grep -m1 '^violation class' "$OUT/$id.log" | cut -c1-120)"
done
git -C /repo status --porcelain
