#!/bin/bash
# Literal procedure of the brief: apply each kept change to /repo, run the check(s) of its property, undo straight afterwards.
#   seeded_matrix.sh [id ...]      (default: every directory under /verif/seeded)
# Do not run while a `vp run` soak is using /repo.
set -u
HERE="$(cd "$(dirname "$0")" && pwd)"
cd "$HERE"
ids=("$@"); [ ${#ids[@]} -eq 0 ] && ids=($(ls -d seeded/*/ | xargs -n1 basename))
OUT=/var/tmp/verif-seeded-matrix; rm -rf "$OUT"; mkdir -p "$OUT"
if [ -n "$(git -C /repo status --porcelain)" ]; then echo "/repo is not clean"; exit 9; fi
for id in "${ids[@]}"; do
  props=$(python3 -c "import json;m=json.load(open('seeded/$id/meta.json'));print(' '.join(sorted(set(m['breaks_property'].replace(' ','').split('/'))|set(m['caught_by']))))")
  git -C /repo apply "$HERE/seeded/$id/patch.diff" || { echo "$id PATCH-FAILED"; continue; }
  for prop in $props; do
    VERIF_EVIDENCE_DIR="$OUT/evidence" VERIF_REPLAY_DIR="$OUT/replays" VERIF_SHRINK_S=20 ./check "$prop" --tier quick > "$OUT/$id-$prop.log" 2>&1
    rc=$?
    echo "$id $prop exit=$rc $(grep -m1 '^violation class' "$OUT/$id-$prop.log" | cut -c1-120)"
  done
  git -C /repo checkout -- .
done
git -C /repo status --porcelain
